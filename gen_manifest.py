#!/usr/bin/env python3
"""Regenerates MANIFEST.json from the table below (keeps the file valid and consistent)."""
import json, subprocess

SEQ = "E1 sequential history simulator (vsim, engine `seq`)"
checks = {
 "C01": ("exploration", "seeded search over operation histories x backend stacks, step-by-step refinement check against an abstract-tree reference model", "7/C01",
         "Every generated history (4-40 calls, wrong-type calls included) runs on a generated stack (Mem, Phys on tmpfs, Altroot, Overlay 1-3 layers, nestings, pre-populated lower layers); each result class/value and a full observable snapshot of every universe path and every listed path are compared with the reference model after every step. Sampling, not proof. Also: names with backslashes, an inner _wo, a .whiteout prefix and 250 bytes, non-canonical path expressions incl. successive joins from non-root bases, sparse observation (snapshots skipped for a few steps in a quarter of the runs), restarts of the adapters over the same layers."),
 "C02": ("exploration", "lock-step twin simulation MemoryFS vs PhysicalFS(tmpfs) with pairwise outcome and snapshot comparison", "7/C02",
         "The same generated history (incl. wrong-type calls, reader seek/read scripts, boundary-size and non-UTF-8 payloads) runs on an empty MemoryFS and an empty PhysicalFS; success/failure, named error classes where demanded, returned data and full snapshots must agree after every step."),
 "C03": ("exploration", "seeded search over unrestricted histories with a model-free tree invariant evaluated on full snapshots after every step", "7/C03",
         "Unrestricted call domain (file calls on directories, directory calls on files, wrong-typed transfers) on all stacks incl. pre-populated overlays; after every step root is a directory, every existing path has an existing directory parent and is reached by walk_dir(root). Pre-populated overlays include directories of a higher layer over same-named files of a deeper layer; a quarter of the overlay histories start with wrong-typed removals of pre-populated non-empty directories. 12% of the runs have a second filesystem and end with a transfer of a populated directory across the two; a quarter of the runs fail one underlying call (a third of those only count calls on open handles, i.e. a read or write in the middle of a transfer): failed calls must not leave an orphan either."),
 "C04": ("exploration", "seeded write/seek/flush scripts with short-read/short-write/EINTR perturbation, Cursor-based byte oracle", "7/C04",
         "Write sessions (create/append, seeks, flushes, handles kept open across steps with flush visibility), copy/move/copy-up on all stacks with boundary-length, >64KiB, ~200KiB and non-UTF-8 payloads; fresh readers with buffer sizes 1..65536; legal I/O perturbations injected between layers must not change any byte."),
 "C05": ("exploration", "seeded search over unrestricted histories with a model-free cross-observer consistency invariant (incl. walk order)", "7/C05",
         "After every step, for every universe path and every listed path: exists/metadata/is_file/is_dir/parent listing/open+read/walk_dir must tell one story; walk yields each descendant once and directories before contents; listing order is simulator-permuted."),
 "C07": ("exploration", "translated-twin simulation with a call recorder between altroot and underlying filesystem, hostile path expressions", "7/C07",
         "Each operation runs through AltrootFS(U at P) and, translated to P+q, on an identical twin U'; outcomes, the whole of U vs U' (inside and beside P), the altroot view vs the subtree, every path the altroot hands to U (recorder), and sentinels beside physical roots are compared after every step; 45% of path expressions are hostile equivalents ('..' chains, absolute segments, './', '//')."),
 "C08": ("exploration", "recorded simulation: call log of every layer plus deep before/after snapshots of lower layers", "7/C08",
         "Overlays of 2-4 layers (Mem/Phys/altroot/nested overlay layers, generated lower contents); after every step no mutating call may have reached a lower layer (or any layer during a pure observer), and type/bytes/created/modified of every lower entry are unchanged; 40% of the runs fail one underlying call. A third of the runs are replayed through the async port (AsyncOverlayFS stacks inside a tokio runtime, recorder on every async layer, half of them with a k-th-call failure), and a quarter of the all-memory runs end with a two-thread phase under the seeded scheduler (tail of the history split over two callers, or a targeted writer-vs-remover race on a lower-layer file): no mutating call may reach a lower layer under any explored schedule. Mutating calls issued while the simulator's own per-step snapshot (pure observers only) runs are reported as observer mutations too."),
 "C09": ("exploration", "seeded search over histories on pre-populated overlays, refinement check against the union model", "7/C09",
         "Model initialised with the upper-shadows-lower union of generated type-consistent layer contents (1-4 layers, same path in several layers with different bytes), then C01's oracle with a mix biased to create-over-lower, remove-with-lower-children, append-to-lower. Also: a directory of a higher layer over a same-named file of a deeper one, wide directories (40-130 entries), large pre-existing lower files in byte mode, non-canonical path expressions, sparse observation (snapshots skipped for a few steps) and restarts of the adapters over the same layers."),
 "C10": ("exploration", "removal/re-creation cycle workload with tombstone, freshness and marker-hygiene monitors", "7/C10",
         "1-4 cycles of removals (file, empty dir, remove_dir_all of lower subtrees), unrelated operations and re-creation with same/other type on 2-4 layer overlays; after every later step removed paths and former descendants are invisible to all six observers, re-created entries hold only new content, no listing/walk yields a bookkeeping name. In a third of the runs one re-creation is made to fail by an injected I/O error of an underlying call (a failed re-creation re-creates nothing), and part of the runs are replayed, with the same failure and seeded Pending injection, through the async overlay. The injected failure may also hit a removal: a removal the contract refuses (non-empty directory) that reports success under the failure counts as a removal of the whole subtree. An operation that needs its target to exist (append, read, remove, copy/move source, time setter) and succeeds on a removed, not re-created entry is reported as well. A quarter of the runs restart the stack once or twice (every adapter constructed anew over the same layers): deletions must persist across restarts, in the sync run and in the async mirror."),
 "C11": ("exploration", "seeded search over source trees and ordered filesystem pairs, refinement check against a two-filesystem model", "7/C11",
         "copy/move/copy_dir/move_dir/create_dir_all/remove_dir_all between same instance (fast paths), two instances of one backend and two different stacks; return values, both filesystems' full snapshots and refusal of existing destinations without side effects. A third of the histories (pairs of filesystems included) are replayed through AsyncVfsPath inside a tokio runtime against the same two-filesystem model (outcomes of the transfers, both trees after each of them)."),
 "C12": ("exploration", "error monitor over failing calls with disjoint inner/outer name pools", "7/C12",
         "Every Err of every call and every walk item in failure-heavy histories on adapter stacks: path is not the placeholder, lies in the caller's namespace at/above/below receiver or destination, Display leaks no inner name; not-found / file-exists / directory-exists / invalid-path / not-supported classes where the statement demands them. In a third of the runs one underlying call of one operation (biased to composites) fails with an injected I/O error; the error of that step must satisfy the same path rules (classification is judged on fault-free steps only) and the run ends there. A third of the runs are replayed through the async port (same failure, seeded Pending injection, inside a tokio runtime): a time setter on an entry missing from an existing directory must answer not-found (or not-supported); every error of AsyncVfsPath and the async adapters obeys the same rules (the text of a runtime I/O error itself is exempt from the name rule: async-std puts host paths there)."),
 "C13": ("exploration", "unrestricted call sequences with environment, I/O and stale-handle faults under catch_unwind", "7/C13",
         "All backends incl. EmbeddedFS and type-conflicting overlay layers; hostile joins, root calls, wrong-type calls, extreme seek offsets, zero-length buffers, handles kept across removals; on-disk non-UTF-8 names, dangling symlinks, unix-socket files, symlinks to themselves and to siblings, entries removed behind the library (each often followed by a direct look at the entry); k-th-call I/O errors (one-shot/sticky), short I/O, EINTR. Any panic in a call, handle call, observer or drop is a violation."),
 "C14": ("exploration", "handle call scripts compared call by call with std::io::Cursor (count feedback), publish check at flush/drop", "7/C14",
         "read(n)/seek(Start|Current|End, off)/write/flush scripts on handles of every backend and adapter (EmbeddedFS readers included), offsets around 0, +-len, +-2^40, zero-length reads, writes past the end; short I/O and EINTR injected below adapters."),
 "C15": ("exploration", "lock-step sync/async twin simulation under seeded poll schedules (Pending injection in every inner future, stream and handle poll)", "7/C15",
         "The same history (C01/C09 domain plus reader scripts, walk_dir and composite operations) runs on a sync stack and on two async twins built from the same spec and the same listing-order seeds; a PendFS wrapper at every layer boundary makes inner futures, listing streams (between items) and handle polls return Pending 0-3 times with two different densities; outcomes, error classes, stream items (walk: multiset + parent before child), reader results and full snapshots are compared after every step, the two poll schedules with each other, and on memory-backed stacks every Pending must be an injected one (bounded progress). Also: create handles kept open across calls on other paths, invalid join arguments (trailing and all slashes), byte-mode payloads (64 KiB boundaries, ~200 KiB) in 8% of the runs, non-canonical path expressions, and RESTARTS: all three stacks rebuild their adapters over the same layers and must still agree."),
 "C16": ("exploration", "controlled thread scheduler at lock-acquisition granularity (hooked RwLock), linearizability against sequential runs of the real code", "7/C16",
         "Small programs (2-3 threads, <= 9 API calls: create_dir, create_file/append sessions as open+write+drop, remove_file, remove_dir, exists, metadata, read_dir, open+read on <= 4 overlapping paths, optional initial content) run on real threads under a baton scheduler that decides which thread passes each MemoryFS lock acquisition (seeded uniform and PCT depth 1-3, 60 schedules per program); the concurrent per-call results and final snapshot must equal those of some program-order-respecting sequential order, all of which are executed on a fresh MemoryFS; panics, deadlock (all threads blocked) and livelock (> 20000 decisions) are violations. A fifth of the programs are observer-vs-replacer races: one thread looks at an entry or its parent (metadata, exists, read_dir, read) while the other removes it and creates an entry of the other type with content at the same path."),
 "C17": ("exploration", "controlled thread scheduler at lock (MemoryFS) and trait-call (SimFS boundary) granularity over concurrent create_dir_all programs", "7/C17",
         "2-4 threads each calling create_dir_all (sometimes twice) on paths of depth 1-4 that share prefixes of every length, optional pre-existing prefixes, on Mem, Altroot(Mem), Overlay(Mem..) at lock granularity (writer-preferring lock model: a nested read acquisition behind a waiting writer is a deadlock) and PhysicalFS / Altroot(Phys) / Overlay(Phys,Mem) at trait-call and syscall granularity (vsim defines mkdir/rmdir/unlink/rename itself, yields to the scheduler and forwards to the real function, so the scheduler serialises the syscalls and runs replay); every call must return Ok and afterwards every requested path and ancestor is a directory. Half of the overlay programs start after a finished sequential history in which directories of the chain that live in a lower layer were removed through the overlay (and sometimes partly re-created), so that the threads create below deletion markers."),
 "C19": ("exploration", "time-mode histories with a shadow metadata oracle (no wall clock in any comparison)", "7/C19",
         "Three setters in all orders on files and directories with epoch/negative/sub-second/far values, interleaved with write sessions; metadata read immediately before/after: exact value, other fields/len/type/bytes unchanged, NotSupported or any error changes nothing, creation time survives appends on memory, adapters report the serving entry's timestamps; a support model (which stack supports which setter) decides accepted vs not-supported. Physical stacks are replayed through the async port inside a tokio runtime (field set exactly, others unchanged, unsupported = not-supported), and on all-physical overlays every async setter must be accepted or refused exactly as the sync one (an entry that lives only in a lower layer is refused)."),
 "C20": ("fault_enumeration", "per-operation exhaustive enumeration of the failing underlying call inside seeded histories", "7/C20",
         "For every operation i of each seeded history a fault-free pass counts the N_i calls made into the wrapped filesystems; for every k in 1..N_i a fresh stack replays the prefix, fails call k (4 I/O error kinds, plus not-found for mutating calls; one-shot; sticky in 30% of histories) and judges: Ok => model value and full effect on a full snapshot, else an error (items of walk_dir count); never a panic; no mutating call on a lower overlay layer; after a verified success the rest of the history keeps tracking the model. Every 4th history on a stack without a physical layer is enumerated through the async port as well (PendFS k-th-call failure under seeded Pending injection)."),
}
notes = {
 "C01": "Trusted: the reference model (sim/src/model.rs, ~350 lines) encodes the contracts of DESIGN 3.3; PhysicalFS runs on the real kernel (tmpfs). One known finding (OverlayFS::remove_file on an empty directory, pinned by an existing test) is listed in known_findings.json.",
 "C02": "Trusted: tmpfs as representative of the host OS; excluded as stated: seeks on append handles, overlapping handle lifetimes, OS-refused names.",
 "C03": "Model-free; trusted: the snapshot procedure (sim/src/observe.rs).",
 "C04": "Trusted: std::io::Cursor as the byte oracle; zero-length writes are not generated (Cursor pads on an empty write after a seek past the end, files do not).",
 "C05": "Model-free; trusted: the snapshot procedure.",
 "C07": "Non-mutating exists/metadata on ancestors of P are not counted as escapes (needed to operate on P itself). Symlinks aside, as stated.",
 "C08": "Access times of lower entries are excluded (a layer may update them when it is read); unsupported fast-path probes (copy_file/move_* returning NotSupported) are not mutations.",
 "C09": "Layer contents are generated type-consistent, except that a directory of a higher layer may shadow a same-named file of a deeper layer (a file above a directory is not generated: the pinned overlay then still shows the children below the file, and the statement does not say what the union is). Same known finding as C01.",
 "C10": "Reserved names are never probed by path, only listings/walks are inspected (nested overlays reach markers legitimately).",
 "C11": "copy_dir/move_dir with a wrong-typed or missing source and into the own subtree are not generated (unspecified / documented non-termination). Same known finding as C01.",
 "C12": "Under an injected failure only the path rules are judged (placeholder, inner namespace, relation to receiver/destination), not the error class; the injected error itself is an I/O-class error.",
 "C13": "Process aborts (stack overflow, allocation failure) are not caught by catch_unwind: they would end the check with a non-zero, non-1 status. File sizes and writer seek targets are bounded to 1 MiB.",
 "C14": "Seeks on append handles are compared on all-memory stacks only; offsets beyond +-2^40 are left to C13 (OS limits differ from Cursor).",
 "C15": "Own single-threaded executor (futures::executor::block_on would make AsyncWritableFile::drop's nested block_on panic - executor choice is outside the statement). Timestamps and seeking write handles (absent in the async API) excluded. AsyncPhysicalFS completes on async-std's blocking pool: outcomes are compared, poll counts on that backend are not. One known finding (async-std File after a zero-length read).",
 "C16": "Linearizability is judged at API-call granularity with the real code as its own sequential specification (a write session is open, private writes, publish at drop). Failed calls are compared as 'failed' without the error kind. Needs the guarded hook (feature verif-hooks) in MemoryFS's lock.",
 "C17": "PhysicalFS interleavings are at the granularity of the library's mutating syscalls (kernel-atomic, serialised by the scheduler), not inside the kernel; read-only syscalls (stat, open for reading) are not scheduling points of their own.",
 "C19": "OverlayFS set_*_time on a lower-only entry fails not-found and changes nothing: accepted by the statement's letter.",
 "C20": "Injected kinds are I/O-class only (never NotFound/AlreadyExists/NotSupported: code that believes such an answer is not wrong). After a reported error any partial state is accepted.",
}
man = {
 "version": 1,
 "setup_cmd": "cd /verif/sim && CARGO_NET_OFFLINE=true cargo build --release --offline",
 "hooks": {
  "guard": "cargo feature verif-hooks",
  "enable": "vsim depends on vfs by path (/repo) with features [verif-hooks, async-vfs, embedded-fs]; every check runs `cargo build --release --offline` in /verif/sim first, which rebuilds from /repo's working tree",
  "baseline_off_cmd": "cd /repo && cargo test --workspace --no-fail-fast --offline",
  "source_commits": ["c1c5264"],
  "add_only": True,
 },
 "engines": [
  {"name": "vsim", "path": "/verif/sim", "serves_properties": sorted(checks.keys()),
   "kind_free_text": "deterministic simulator: one seeded PRNG decides stacks, initial contents, histories, listing orders, fault positions, thread and poll schedules; engines seq (E1), conc (E2), async (E3)"}
 ],
 "checks": [],
 "not_applicable": [
  {"property_id": "C06", "reason": "path joining is a pure function of its string arguments: no state, schedule, fault or history for a simulator to own (DESIGN.md section 7)"},
  {"property_id": "C18", "reason": "EmbeddedFS is stateless and the property is quantified over inputs only: exhaustive input comparison, not simulation (DESIGN.md section 7); EmbeddedFS is still exercised as a backend in C13/C14"},
 ],
 "notes": "All checks: ./check <id> --tier quick|thorough; exit 0/1/2 (2 = harness error). VERIF_SEED (default 20260101) seeds every random choice. Known findings: known_findings.json.",
}
pending = {}
import os
for pid in []:
    if pid not in checks:
        man["not_applicable"].append({"property_id": pid, "reason": "check not built yet in this round (planned: DESIGN.md section 7)"})
for pid in sorted(checks):
    level, tech, ref, text = checks[pid]
    man["checks"].append({
        "property_id": pid,
        "quick_cmd": "./check %s --tier quick" % pid,
        "thorough_cmd": "./check %s --tier thorough" % pid,
        "evidence_file": "/verif/evidence/%s.json" % pid,
        "replay_cmd_template": "./check %s --replay {path}" % pid,
        "engine": "vsim",
        "level_claimed": {"category": level, "text": text, "design_ref": "DESIGN.md section " + ref},
        "level_note": notes[pid],
        "technique": "deterministic simulation with fault injection: " + tech,
    })
json.dump(man, open("/verif/MANIFEST.json", "w"), indent=1)
print("checks:", len(man["checks"]), "not_applicable:", [x["property_id"] for x in man["not_applicable"]])
