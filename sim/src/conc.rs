//! Engine E2: thread-schedule simulator. Real OS threads, one baton: exactly one controlled
//! thread runs at any time; at every yield point (the hooked MemoryFS lock, or a SimFS call
//! boundary) the running thread hands the baton to the thread the seeded scheduler picks.
//! A schedule *is* the list of chosen thread ids, so it replays and shrinks.

use crate::model::*;
use crate::observe::snapshot;
use crate::ops::Exec;
use crate::rng::{hash_str, mix, Rng};
use crate::seq::{res_hash, short, RunOut};
use crate::stack::{build, Spec};
use crate::types::*;
use serde::{Deserialize, Serialize};
use std::cell::RefCell;
use std::collections::{BTreeMap, BTreeSet};
use std::sync::{Arc, Condvar, Mutex, Once};

const NONE: usize = usize::MAX;

struct St {
    n: usize,
    finished: Vec<bool>,
    blocked: Vec<bool>,
    current: usize,
    decisions: Vec<u8>,
    replay: Option<Vec<u8>>,
    rng: Rng,
    /// PCT: priorities and the step numbers at which the running thread is demoted
    prio: Option<Vec<u32>>,
    change_at: Vec<usize>,
    steps: usize,
    abort: Option<String>,
    blocked_streak: usize,
    labels: Vec<&'static str>,
    preemptions: u64,
    /// label of the yield point each thread is parked at
    last_label: Vec<&'static str>,
    /// thread is waiting to acquire the lock for writing (its try_write failed)
    writer_waiting: Vec<bool>,
}

pub struct Sched {
    m: Mutex<St>,
    cv: Condvar,
}

thread_local! {
    static CTX: RefCell<Option<(Arc<Sched>, usize)>> = RefCell::new(None);
}

static INSTALL: Once = Once::new();

// Controlled threads are reused across schedules (per worker): creating and destroying OS
// threads at this rate from 16 workers serialises on the process' address-space lock.
type Job = Box<dyn FnOnce() + Send>;
thread_local! {
    static POOL: RefCell<Vec<std::sync::mpsc::Sender<(Job, std::sync::mpsc::Sender<()>)>>> = RefCell::new(vec![]);
}

fn pool_spawn(slot: usize, f: impl FnOnce() + Send + 'static) -> std::sync::mpsc::Receiver<()> {
    let (done_tx, done_rx) = std::sync::mpsc::channel();
    POOL.with(|p| {
        let mut p = p.borrow_mut();
        while p.len() <= slot {
            let (tx, rx) = std::sync::mpsc::channel::<(Job, std::sync::mpsc::Sender<()>)>();
            std::thread::spawn(move || {
                while let Ok((job, done)) = rx.recv() {
                    job();
                    let _ = done.send(());
                }
            });
            p.push(tx);
        }
        let _ = p[slot].send((Box::new(f), done_tx));
    });
    done_rx
}

pub fn install_hook() {
    INSTALL.call_once(|| {
        vfs::verif_hooks::install(Some(Arc::new(|label: &'static str, blocked: bool| -> bool { conc_yield(label, blocked) })));
    });
}

/// called from the MemoryFS lock hook and from SimFS (SchedFS); no-op on uncontrolled threads
pub fn conc_yield(label: &'static str, blocked: bool) -> bool {
    let ctx = CTX.with(|c| c.borrow().clone());
    match ctx {
        Some((s, me)) => s.yield_point(me, label, blocked),
        None => false,
    }
}

impl St {
    /// std's RwLock on Linux prefers writers: while a writer waits, a new read acquisition queues
    /// behind it. A thread parked in front of a *read* acquisition is therefore not runnable while
    /// another thread waits to write (this is what turns a recursive read lock into a deadlock).
    fn behind_writer(&self, t: usize) -> bool {
        self.last_label[t] == "rwlock.read" && (0..self.n).any(|w| w != t && !self.finished[w] && self.writer_waiting[w])
    }

    fn pick(&mut self, me: usize) -> usize {
        let mut cands: Vec<usize> = (0..self.n).filter(|t| !self.finished[*t] && !self.blocked[*t] && !self.behind_writer(*t)).collect();
        if cands.is_empty() {
            cands = (0..self.n).filter(|t| !self.finished[*t] && !self.behind_writer(*t)).collect();
        }
        if cands.is_empty() {
            cands = (0..self.n).filter(|t| !self.finished[*t]).collect();
        }
        if cands.is_empty() {
            return NONE;
        }
        let choice = if let Some(rp) = &self.replay {
            let want = rp.get(self.decisions.len()).map(|x| *x as usize);
            match want {
                Some(w) if cands.contains(&w) => w,
                // a shrunk schedule may name a finished thread: stay on the running one if possible
                _ => {
                    if cands.contains(&me) {
                        me
                    } else {
                        cands[0]
                    }
                }
            }
        } else if let Some(prio) = &mut self.prio {
            if self.change_at.contains(&self.steps) && me < self.n {
                prio[me] = 0;
            }
            *cands.iter().max_by_key(|t| (prio[**t], usize::MAX - **t)).unwrap()
        } else {
            cands[self.rng.below(cands.len())]
        };
        self.decisions.push(choice as u8);
        if choice != me && me < self.n && !self.finished[me] {
            self.preemptions += 1;
        }
        choice
    }
}

impl Sched {
    fn new(n: usize, seed: u64, pct_depth: Option<usize>, replay: Option<Vec<u8>>) -> Arc<Sched> {
        let mut rng = Rng::new(seed);
        let (prio, change_at) = match pct_depth {
            Some(d) => {
                let mut p: Vec<u32> = (0..n as u32).map(|i| i + 10).collect();
                rng.shuffle(&mut p);
                let ch: Vec<usize> = (0..d).map(|_| rng.range(1, 40)).collect();
                (Some(p), ch)
            }
            None => (None, vec![]),
        };
        Arc::new(Sched {
            m: Mutex::new(St {
                n,
                finished: vec![false; n],
                blocked: vec![false; n],
                current: NONE,
                decisions: vec![],
                replay,
                rng,
                prio,
                change_at,
                steps: 0,
                abort: None,
                blocked_streak: 0,
                labels: vec![],
                preemptions: 0,
                last_label: vec![""; n],
                writer_waiting: vec![false; n],
            }),
            cv: Condvar::new(),
        })
    }

    fn yield_point(&self, me: usize, label: &'static str, blocked: bool) -> bool {
        let mut st = self.m.lock().unwrap();
        if st.abort.is_some() {
            return false;
        }
        st.steps += 1;
        if st.labels.len() < 64 {
            st.labels.push(label);
        }
        st.last_label[me] = label;
        st.writer_waiting[me] = blocked && label == "rwlock.write";
        if blocked {
            st.blocked[me] = true;
            st.blocked_streak += 1;
            if st.blocked_streak > 4 * st.n + 8 {
                st.abort = Some("deadlock: every unfinished thread is blocked on a lock".into());
                self.cv.notify_all();
                return false;
            }
        } else {
            st.blocked_streak = 0;
            for b in st.blocked.iter_mut() {
                *b = false;
            }
        }
        if st.steps > 20_000 {
            st.abort = Some("livelock: more than 20000 scheduling decisions".into());
            self.cv.notify_all();
            return false;
        }
        let next = st.pick(me);
        st.current = next;
        if next != me {
            self.cv.notify_all();
            while st.current != me && st.abort.is_none() {
                st = self.cv.wait(st).unwrap();
            }
        }
        true
    }

    fn wait_turn(&self, me: usize) {
        let mut st = self.m.lock().unwrap();
        while st.current != me && st.abort.is_none() {
            st = self.cv.wait(st).unwrap();
        }
    }

    fn finish(&self, me: usize) {
        let mut st = self.m.lock().unwrap();
        if st.abort.is_some() {
            // abandoned after an abort: the schedule is already closed
            st.finished[me] = true;
            return;
        }
        st.finished[me] = true;
        st.writer_waiting[me] = false;
        st.last_label[me] = "";
        for b in st.blocked.iter_mut() {
            *b = false;
        }
        let next = st.pick(me);
        st.current = next;
        self.cv.notify_all();
    }
}

#[derive(Clone, Debug, Serialize, Deserialize, PartialEq)]
pub struct ConcCfg {
    pub property: String,
    pub seed: u64,
    pub spec: Spec,
    /// per thread: the API calls in program order
    pub program: Vec<Vec<Op>>,
    pub n_schedules: usize,
    /// Some = replay exactly this schedule (list of chosen thread ids)
    pub schedule: Option<Vec<u8>>,
    /// yield at SimFS call boundaries too (needed where the backend is not MemoryFS)
    pub sched_fs: bool,
    /// calls made one after the other before the threads start (earlier, finished history)
    #[serde(default)]
    pub setup: Vec<Op>,
}

pub struct ConcRun {
    pub results: Vec<Vec<Res>>,
    pub final_hash: u64,
    pub final_desc: String,
    pub decisions: Vec<u8>,
    pub abort: Option<String>,
    pub preemptions: u64,
    pub labels: Vec<&'static str>,
    pub post_ok: Result<(), String>,
    /// calls recorded at every layer while the threads ran (property C08 only)
    pub log: Vec<crate::simfs::Rec>,
}

fn universe_of(cfg: &ConcCfg) -> BTreeSet<String> {
    let mut u = BTreeSet::new();
    for t in &cfg.program {
        for op in t {
            for p in op.paths() {
                if let Ok(c) = canon(&p.s) {
                    for a in ancestors(&c) {
                        u.insert(a);
                    }
                    u.insert(c);
                }
            }
        }
    }
    for k in cfg.spec.view().t.keys() {
        u.insert(k.clone());
    }
    u
}

fn snap_desc(root: &vfs::VfsPath, uni: &BTreeSet<String>) -> (u64, String) {
    let s = snapshot(root, uni, false, false);
    let mut d = String::new();
    for (p, e) in &s.e {
        if matches!(e.exists, Ok(true)) {
            let kind = match &e.meta {
                Ok(m) if m.dir => "D".to_string(),
                Ok(m) => format!("F{}:{:x}", m.len, e.bytes.as_ref().map(|b| crate::rng::hash_bytes(b) & 0xffff).unwrap_or(0)),
                Err(_) => "?".into(),
            };
            d.push_str(&format!("{}={} ", if p.is_empty() { "/" } else { p }, kind));
        }
    }
    (s.hash(), d)
}

/// One concurrent execution under one schedule.
pub fn run_schedule(cfg: &ConcCfg, sched_seed: u64, pct: Option<usize>, replay: Option<Vec<u8>>) -> Result<ConcRun, String> {
    install_hook();
    let built = build(&cfg.spec, 7, false)?;
    if !cfg.setup.is_empty() {
        let mut ex = Exec::new(vec![built.root.clone()]);
        for op in &cfg.setup {
            let _ = ex.exec(op);
        }
    }
    if cfg.property == "C08" {
        built.ctl.take_log();
        built.ctl.set_rec(true);
    }
    let n = cfg.program.len();
    let sched = Sched::new(n, sched_seed, pct, replay);
    if cfg.sched_fs {
        *built.ctl.sched.lock().unwrap() = Some(Arc::new(|label: &'static str| {
            conc_yield(label, false);
        }));
        built.ctl.sched_on.store(true, std::sync::atomic::Ordering::SeqCst);
    }
    let results: Arc<Mutex<Vec<Vec<Res>>>> = Arc::new(Mutex::new(vec![vec![]; n]));
    let mut handles = vec![];
    for (tid, prog) in cfg.program.iter().enumerate() {
        let root = built.root.clone();
        let sched = sched.clone();
        let prog = prog.clone();
        let results = results.clone();
        handles.push(pool_spawn(tid, move || {
            CTX.with(|c| *c.borrow_mut() = Some((sched.clone(), tid)));
            sched.wait_turn(tid);
            let mut ex = Exec::new(vec![root]);
            let mut out = vec![];
            for op in &prog {
                out.push(ex.exec(op));
            }
            // handles still open are dropped here, inside the schedule
            let slots: Vec<u8> = ex.slots.keys().cloned().collect();
            for s in slots {
                let _ = ex.exec(&Op::HDrop(s));
            }
            results.lock().unwrap()[tid] = out;
            CTX.with(|c| *c.borrow_mut() = None);
            sched.finish(tid);
        }));
    }
    // start: pick the first thread
    {
        let mut st = sched.m.lock().unwrap();
        let first = st.pick(NONE);
        st.current = first;
        sched.cv.notify_all();
    }
    // wait for completion (or abort)
    let aborted = {
        let mut st = sched.m.lock().unwrap();
        while !(st.finished.iter().all(|f| *f)) && st.abort.is_none() {
            st = sched.cv.wait(st).unwrap();
        }
        st.abort.clone()
    };
    if aborted.is_none() {
        for h in handles {
            let _ = h.recv();
        }
    } else {
        // threads may hang in a real lock: abandon this worker's pool
        POOL.with(|p| p.borrow_mut().clear());
    }
    built.ctl.sched_on.store(false, std::sync::atomic::Ordering::SeqCst);
    built.ctl.set_rec(false);
    let log = built.ctl.take_log();
    let (decisions, preemptions, labels) = {
        let st = sched.m.lock().unwrap();
        (st.decisions.clone(), st.preemptions, st.labels.clone())
    };
    let uni = universe_of(cfg);
    let (final_hash, final_desc) = if aborted.is_none() { built.ctl.quiet(|| snap_desc(&built.root, &uni)) } else { (0, "aborted".into()) };
    // C17 post-condition: every requested path and each ancestor is a directory
    let mut post_ok = Ok(());
    if cfg.property == "C17" && aborted.is_none() {
        'outer: for t in &cfg.program {
            for op in t {
                if let Op::CreateDirAll(p) = op {
                    let c = canon(&p.s).unwrap_or_default();
                    let mut chain = ancestors(&c);
                    chain.push(c);
                    for a in chain {
                        let isd = built.ctl.quiet(|| crate::ops::resolve(&built.root, &a).and_then(|v| v.is_dir()));
                        if !matches!(isd, Ok(true)) {
                            post_ok = Err(format!("after all calls returned, '{}' is not a directory ({:?})", a, isd.map_err(|e| e.to_string())));
                            break 'outer;
                        }
                    }
                }
            }
        }
    }
    // after an abort the abandoned threads run uncontrolled: their results are not part of the run
    let r = if aborted.is_some() { vec![vec![]; n] } else { results.lock().unwrap().clone() };
    Ok(ConcRun { results: r, final_hash, final_desc, decisions, abort: aborted, preemptions, labels, post_ok, log })
}

fn results_hash(results: &[Vec<Res>], final_hash: u64) -> u64 {
    let mut h = final_hash;
    for (t, rs) in results.iter().enumerate() {
        for r in rs {
            h = mix(h, mix(t as u64, res_hash_norm(r)));
        }
    }
    h
}

/// result hash that ignores listing order and error paths/messages (class only)
fn res_hash_norm(r: &Res) -> u64 {
    match r {
        Res::Ok(Out::Names(v)) => {
            let mut v = v.clone();
            v.sort();
            res_hash(&Res::Ok(Out::Names(v)))
        }
        // a failed call is compared as "failed": which of two racing checks reports the failure
        // (path layer or backend) decides the error kind, not whether the call fails
        Res::Err(_) => 2,
        other => res_hash(other),
    }
}

/// All sequential executions of the program's API calls that respect each thread's order,
/// run on the real code: the set of acceptable (results, final state) outcomes.
pub fn sequential_outcomes(cfg: &ConcCfg) -> Result<(BTreeMap<u64, String>, u64), String> {
    let n = cfg.program.len();
    let lens: Vec<usize> = cfg.program.iter().map(|p| p.len()).collect();
    let mut outcomes: BTreeMap<u64, String> = BTreeMap::new();
    let mut count = 0u64;
    let uni = universe_of(cfg);
    // enumerate interleavings by DFS over position vectors, re-executing from scratch per leaf
    let mut order: Vec<usize> = vec![];
    let total: usize = lens.iter().sum();
    fn rec(cfg: &ConcCfg, lens: &[usize], pos: &mut Vec<usize>, order: &mut Vec<usize>, total: usize, outcomes: &mut BTreeMap<u64, String>, count: &mut u64, uni: &BTreeSet<String>) -> Result<(), String> {
        if order.len() == total {
            *count += 1;
            let built = build(&cfg.spec, 7, false)?;
            let n = lens.len();
            let mut execs: Vec<Exec> = (0..n).map(|_| Exec::new(vec![built.root.clone()])).collect();
            let mut idx = vec![0usize; n];
            let mut results: Vec<Vec<Res>> = vec![vec![]; n];
            for t in order.iter() {
                let op = &cfg.program[*t][idx[*t]];
                idx[*t] += 1;
                let r = execs[*t].exec(op);
                results[*t].push(r);
            }
            drop(execs);
            let (fh, fd) = snap_desc(&built.root, uni);
            let h = results_hash(&results, fh);
            outcomes.entry(h).or_insert_with(|| format!("order {:?} -> {} | final: {}", order, short(&results.iter().map(|rs| rs.iter().map(|r| r.class()).collect::<Vec<_>>()).collect::<Vec<_>>()), fd));
            return Ok(());
        }
        for t in 0..lens.len() {
            if pos[t] < lens[t] {
                pos[t] += 1;
                order.push(t);
                rec(cfg, lens, pos, order, total, outcomes, count, uni)?;
                order.pop();
                pos[t] -= 1;
            }
        }
        Ok(())
    }
    let mut pos = vec![0usize; n];
    rec(cfg, &lens, &mut pos, &mut order, total, &mut outcomes, &mut count, &uni)?;
    Ok((outcomes, count))
}

pub fn run_conc(cfg: &ConcCfg, trace: bool) -> RunOut {
    let mut out = RunOut::default();
    let shape = cfg.spec.shape();
    let c16 = cfg.property == "C16";
    let seq = if c16 {
        match sequential_outcomes(cfg) {
            Ok(s) => Some(s),
            Err(e) => {
                out.harness_error = Some(e);
                return out;
            }
        }
    } else {
        None
    };
    if let Some((o, c)) = &seq {
        out.add("probe.c16.sequential_orders_executed", *c);
        out.add("probe.c16.distinct_sequential_outcomes", o.len() as u64);
    }
    let kinds: Vec<String> = cfg.program.iter().map(|t| t.iter().map(|o| o.kind()).collect::<Vec<_>>().join(",")).collect();
    let mut sig = hash_str(&format!("{}|{:?}", shape, kinds));
    let schedules: Vec<(u64, Option<usize>, Option<Vec<u8>>)> = match &cfg.schedule {
        Some(s) => vec![(0, None, Some(s.clone()))],
        None => (0..cfg.n_schedules)
            .map(|i| {
                let s = mix(cfg.seed, i as u64);
                // two thirds uniform random, one third PCT with depth 1..3
                let pct = if i % 3 == 2 { Some(1 + (i / 3) % 3) } else { None };
                (s, pct, None)
            })
            .collect(),
    };
    let mut distinct: BTreeSet<u64> = BTreeSet::new();
    let mut max_pre = 0;
    for (s, pct, rp) in schedules {
        let run = match run_schedule(cfg, s, pct, rp) {
            Ok(r) => r,
            Err(e) => {
                out.harness_error = Some(e);
                return out;
            }
        };
        out.evals += 1;
        out.steps += run.decisions.len() as u64;
        let dh = run.decisions.iter().fold(7u64, |h, d| mix(h, *d as u64));
        distinct.insert(dh);
        max_pre = max_pre.max(run.preemptions);
        out.log_hash = mix(out.log_hash, mix(dh, results_hash(&run.results, run.final_hash)));
        if trace {
            out.trace.push(format!("schedule {:?}\n  labels {:?}\n  results {}\n  final {}", run.decisions, run.labels, short(&run.results), run.final_desc));
        }
        let mut verdict: Option<(String, String)> = None;
        if let Some(a) = &run.abort {
            verdict = Some((a.split(':').next().unwrap_or("abort").to_string(), a.clone()));
        }
        if verdict.is_none() {
            for (t, rs) in run.results.iter().enumerate() {
                for (j, r) in rs.iter().enumerate() {
                    if let Res::Panic(m) = r {
                        verdict = Some(("panic".into(), format!("thread {} call {} {:?} panicked: {}", t, j, cfg.program[t][j], m)));
                    }
                    if !c16 && verdict.is_none() {
                        if let Res::Err(e) = r {
                            verdict = Some((format!("create_dir_all-failed:{:?}", e.class), format!("thread {} call {} {:?} failed: {}", t, j, cfg.program[t][j], e.display)));
                        }
                    }
                }
            }
        }
        if verdict.is_none() && !c16 {
            if let Err(d) = &run.post_ok {
                verdict = Some(("not-a-directory-afterwards".into(), d.clone()));
            }
        }
        if verdict.is_none() {
            if let Some((outcomes, _)) = &seq {
                let h = results_hash(&run.results, run.final_hash);
                if !outcomes.contains_key(&h) {
                    let classes: Vec<Vec<String>> = run.results.iter().map(|rs| rs.iter().map(|r| r.class()).collect()).collect();
                    verdict = Some((
                        "not-linearizable".to_string(),
                        format!(
                            "per-thread results {} with final state [{}] match none of the {} distinct outcomes of the sequential orders; sequential outcomes: {:?}",
                            short(&classes),
                            run.final_desc,
                            outcomes.len(),
                            outcomes.values().take(6).collect::<Vec<_>>()
                        ),
                    ));
                }
            }
        }
        if let Some((k, d)) = verdict {
            let key = format!("{}|{}|{}", cfg.property, shape, k);
            let detail = format!("program {:?} under schedule {:?}: {}", cfg.program, run.decisions, d);
            out.violations.push(Violation { property: cfg.property.clone(), key, detail, step: run.decisions.len() });
            let mut single = cfg.clone();
            single.schedule = Some(run.decisions.clone());
            out.cfg_override = Some(serde_json::to_value(single).unwrap());
            break;
        }
    }
    sig = mix(sig, distinct.len() as u64);
    out.add("probe.conc.max_preemptions_in_a_schedule", 0);
    out.counters.insert("probe.conc.max_preemptions_in_a_schedule".into(), max_pre);
    out.add("probe.conc.distinct_schedules", distinct.len() as u64);
    if cfg.spec.has_phys() {
        out.counters.insert("probe.conc.syscall_yield_points_active".into(), (SYSCALL_YIELDS.load(std::sync::atomic::Ordering::Relaxed) > 0) as u64);
    }
    out.state_hashes = distinct.into_iter().map(|d| mix(d, sig)).collect();
    out.signature = sig;
    let calls: usize = cfg.program.iter().map(|t| t.len()).sum();
    out.nontrivial = cfg.program.len() >= 2 && calls >= 3 && out.state_hashes.len() >= 2;
    out
}

// ------------------------------------------------------------------------------------------
// Syscall-level scheduling points for PhysicalFS. The binary defines the libc entry points the
// library's mutating file-system calls go through; references from std inside this executable
// bind to these definitions, which report a yield point to the baton scheduler (a no-op on
// uncontrolled threads) and then call the real function found with dlsym(RTLD_NEXT). This puts a
// scheduling decision in front of every mkdir/rmdir/unlink/rename the library issues, so a
// check-then-act inside one PhysicalFS trait call can be interleaved as well.

pub static SYSCALL_YIELDS: std::sync::atomic::AtomicU64 = std::sync::atomic::AtomicU64::new(0);

unsafe fn real_fn(name: &'static [u8], cache: &std::sync::atomic::AtomicUsize) -> usize {
    let mut f = cache.load(std::sync::atomic::Ordering::Relaxed);
    if f == 0 {
        f = libc::dlsym(libc::RTLD_NEXT, name.as_ptr() as *const libc::c_char) as usize;
        cache.store(f, std::sync::atomic::Ordering::Relaxed);
    }
    f
}

fn sys_yield(label: &'static str) {
    if conc_yield(label, false) {
        SYSCALL_YIELDS.fetch_add(1, std::sync::atomic::Ordering::Relaxed);
    }
}

#[no_mangle]
pub unsafe extern "C" fn mkdir(path: *const libc::c_char, mode: libc::mode_t) -> libc::c_int {
    static REAL: std::sync::atomic::AtomicUsize = std::sync::atomic::AtomicUsize::new(0);
    sys_yield("sys.mkdir");
    let f: unsafe extern "C" fn(*const libc::c_char, libc::mode_t) -> libc::c_int = std::mem::transmute(real_fn(b"mkdir\0", &REAL));
    f(path, mode)
}

#[no_mangle]
pub unsafe extern "C" fn rmdir(path: *const libc::c_char) -> libc::c_int {
    static REAL: std::sync::atomic::AtomicUsize = std::sync::atomic::AtomicUsize::new(0);
    sys_yield("sys.rmdir");
    let f: unsafe extern "C" fn(*const libc::c_char) -> libc::c_int = std::mem::transmute(real_fn(b"rmdir\0", &REAL));
    f(path)
}

#[no_mangle]
pub unsafe extern "C" fn unlink(path: *const libc::c_char) -> libc::c_int {
    static REAL: std::sync::atomic::AtomicUsize = std::sync::atomic::AtomicUsize::new(0);
    sys_yield("sys.unlink");
    let f: unsafe extern "C" fn(*const libc::c_char) -> libc::c_int = std::mem::transmute(real_fn(b"unlink\0", &REAL));
    f(path)
}

#[no_mangle]
pub unsafe extern "C" fn rename(from: *const libc::c_char, to: *const libc::c_char) -> libc::c_int {
    static REAL: std::sync::atomic::AtomicUsize = std::sync::atomic::AtomicUsize::new(0);
    sys_yield("sys.rename");
    let f: unsafe extern "C" fn(*const libc::c_char, *const libc::c_char) -> libc::c_int = std::mem::transmute(real_fn(b"rename\0", &REAL));
    f(from, to)
}
