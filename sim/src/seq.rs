//! Engine E1: sequential history simulator. One run = build the stack(s), execute the literal
//! operation list step by step against the real library, judge every result and the full
//! observable snapshot after every step with the monitor of the armed property.

use crate::model::*;
use crate::observe::{snapshot, Snap};
use crate::ops::Exec;
use crate::rng::{hash_bytes, hash_str, mix};
use crate::stack::{build, Built, Spec};
use crate::types::*;
use serde::{Deserialize, Serialize};
use std::collections::{BTreeMap, BTreeSet};

#[derive(Clone, Debug, Serialize, Deserialize, PartialEq)]
pub struct FaultPlan {
    /// index of the operation during which the fault is armed
    pub op_index: usize,
    /// 1-based index of the underlying call to fail
    pub k: u64,
    pub sticky: bool,
    /// io::ErrorKind name: "Other" | "PermissionDenied" | "StorageFull" | "TimedOut"
    pub kind: String,
    /// bitmask of node ids whose calls are counted
    pub nodes: u64,
    /// count only calls on open handles
    #[serde(default)]
    pub handles_only: bool,
}

#[derive(Clone, Debug, Serialize, Deserialize, PartialEq)]
pub struct RunCfg {
    pub property: String,
    pub mode: String,
    pub seed: u64,
    pub specs: Vec<Spec>,
    pub order_seed: u64,
    pub permute: bool,
    pub ops: Vec<Op>,
    /// percent chances: short read, short write, EINTR
    pub perturb: [u32; 3],
    pub fault: Option<FaultPlan>,
    /// mode-specific knobs
    #[serde(default)]
    pub extra: BTreeMap<String, String>,
}

#[derive(Clone, Debug, Default)]
pub struct RunOut {
    pub violations: Vec<Violation>,
    pub counters: BTreeMap<String, u64>,
    /// hash of the event log (results + snapshots), for the determinism self-check
    pub log_hash: u64,
    /// signature of the run: stack shape + op-kind/outcome sequence
    pub signature: u64,
    pub nontrivial: bool,
    pub steps: u64,
    pub state_hashes: Vec<u64>,
    pub trace: Vec<String>,
    pub harness_error: Option<String>,
    /// replacement config for the replay file (e.g. the single fault point that failed)
    pub cfg_override: Option<serde_json::Value>,
    /// evaluations this run stands for (0 = one)
    pub evals: u64,
}

impl RunOut {
    pub fn count(&mut self, k: &str) {
        *self.counters.entry(k.to_string()).or_insert(0) += 1;
    }
    pub fn add(&mut self, k: &str, n: u64) {
        *self.counters.entry(k.to_string()).or_insert(0) += n;
    }
}

pub fn tclass(m: &Model, p: &str) -> String {
    if p.is_empty() {
        return "R".into();
    }
    match m.t.get(p) {
        Some(Node::Dir) => {
            if m.children(p).is_empty() {
                "D0".into()
            } else {
                "D+".into()
            }
        }
        Some(Node::File(_)) => "F".into(),
        None => {
            let par = parent_of(p);
            match m.t.get(&par) {
                Some(Node::Dir) => "A/parD".into(),
                Some(Node::File(_)) => "A/parF".into(),
                None => "A/parA".into(),
            }
        }
    }
}

pub fn op_tclass(w: &World, op: &Op) -> String {
    let mut v = vec![];
    for p in op.paths() {
        match canon(&p.s) {
            Ok(c) => v.push(tclass(&w.m[(p.fs as usize).min(w.m.len() - 1)], &c)),
            Err(()) => v.push("INVALID".into()),
        }
    }
    v.join(">")
}

pub fn want_class(w: &Want) -> String {
    match w {
        Want::Ok(_) => "Ok".into(),
        Want::Err(c) if c.is_empty() => "Err".into(),
        Want::Err(c) => format!("Err{:?}", c),
        Want::Unspec => "Unspec".into(),
    }
}

pub fn res_hash(r: &Res) -> u64 {
    match r {
        Res::Ok(o) => mix(1, out_hash(o)),
        Res::Err(e) => mix(2, mix(e.class as u64, hash_str(&e.path))),
        Res::Panic(m) => mix(3, hash_str(m)),
    }
}

pub fn out_hash(o: &Out) -> u64 {
    match o {
        Out::Unit => 1,
        Out::Bool(b) => 2 + *b as u64,
        Out::Meta(m) => mix(4, m.dir as u64 + 2 * m.len),
        Out::Names(v) => v.iter().fold(5, |h, s| mix(h, hash_str(s))),
        Out::Bytes(b) | Out::Read(b) => mix(6, hash_bytes(b)),
        Out::Str(s) => mix(7, hash_str(s)),
        Out::Count(n) => mix(8, *n),
        Out::Walk(v) => v.iter().fold(9, |h, s| match s {
            Ok(p) => mix(h, hash_str(p)),
            Err(e) => mix(h, e.class as u64 + 77),
        }),
        Out::Pos(n) => mix(10, *n),
        Out::Num(n) => mix(11, *n as u64),
        Out::Session(v) => v.iter().fold(12, |h, s| match s {
            Ok(n) => mix(h, *n),
            Err(_) => mix(h, 999),
        }),
    }
}

/// Compare a successful value with the model's value. Listings are compared as sets (order is
/// a simulator-chosen dimension), walks as multisets; timestamps are never compared.
pub fn value_matches(want: &Out, got: &Out) -> Result<(), String> {
    match (want, got) {
        (Out::Names(a), Out::Names(b)) => {
            let mut b2 = b.clone();
            b2.sort();
            if *a == b2 {
                Ok(())
            } else {
                Err(format!("listing {:?} != model {:?}", b2, a))
            }
        }
        (Out::Walk(a), Out::Walk(b)) => {
            let mut items = vec![];
            for x in b {
                match x {
                    Ok(p) => items.push(p.clone()),
                    Err(e) => return Err(format!("walk yielded an error item: {}", e.display)),
                }
            }
            items.sort();
            let a2: Vec<String> = a.iter().filter_map(|x| x.clone().ok()).collect();
            if a2 == items {
                Ok(())
            } else {
                Err(format!("walk items {:?} != model {:?}", items, a2))
            }
        }
        (Out::Meta(a), Out::Meta(b)) => {
            if a.dir == b.dir && a.len == b.len {
                Ok(())
            } else {
                Err(format!("metadata (dir={},len={}) != model (dir={},len={})", b.dir, b.len, a.dir, a.len))
            }
        }
        (Out::Session(a), Out::Session(b)) => {
            if a.len() != b.len() {
                return Err("session step count differs".into());
            }
            for (i, (x, y)) in a.iter().zip(b.iter()).enumerate() {
                match (x, y) {
                    (Ok(m), Ok(n)) if m == n => {}
                    (Err(_), Err(_)) => {}
                    _ => return Err(format!("session step {}: got {:?}, cursor semantics give {:?}", i, y.as_ref().map_err(|e| &e.display), x.as_ref().map_err(|_| "Err"))),
                }
            }
            Ok(())
        }
        (Out::Bytes(a), Out::Bytes(b)) => {
            if a == b {
                Ok(())
            } else {
                Err(format!("bytes differ: got len {} (hash {:x}), model len {} (hash {:x}), first diff at {:?}", b.len(), hash_bytes(b), a.len(), hash_bytes(a), a.iter().zip(b.iter()).position(|(x, y)| x != y)))
            }
        }
        (a, b) => {
            if a == b {
                Ok(())
            } else {
                Err(format!("value {:?} != model {:?}", short(b), short(a)))
            }
        }
    }
}

pub fn short<T: std::fmt::Debug>(x: &T) -> String {
    let s = format!("{:?}", x);
    if s.len() > 300 {
        format!("{}…", s.chars().take(300).collect::<String>())
    } else {
        s
    }
}

/// relation of path q to the op's target paths (for violation keys)
pub fn relation(q: &str, targets: &[String]) -> &'static str {
    for t in targets {
        if q == t {
            return "self";
        }
    }
    for t in targets {
        if is_under(q, t) {
            return "descendant";
        }
        if is_under(t, q) || q.is_empty() {
            return "ancestor";
        }
    }
    for t in targets {
        if parent_of(q) == parent_of(t) {
            return "sibling";
        }
    }
    "unrelated"
}

/// Compare one snapshot with the model: every probed path must look exactly as the model says.
pub fn compare_snap(m: &Model, s: &Snap) -> Option<(String, &'static str, String)> {
    compare_snap_skip(m, s, &[])
}

/// `skip`: paths whose content/length is unspecified right now (unflushed open write handle)
pub fn compare_snap_skip(m: &Model, s: &Snap, skip: &[String]) -> Option<(String, &'static str, String)> {
    for (p, e) in &s.e {
        if skip.contains(p) {
            continue;
        }
        let node = m.t.get(p);
        let st = match node {
            Some(Node::Dir) => "D",
            Some(Node::File(_)) => "F",
            None => "A",
        };
        // exists
        match (&e.exists, node.is_some()) {
            (Ok(b), want) if *b == want => {}
            (other, want) => return Some((p.clone(), "exists", format!("model={} exists()={:?} want {}", st, other.as_ref().map_err(|e| &e.display), want))),
        }
        match (node, &e.meta) {
            (None, Err(_)) => {}
            (Some(Node::Dir), Ok(mo)) if mo.dir && mo.len == 0 => {}
            (Some(Node::File(b)), Ok(mo)) if !mo.dir && mo.len == b.len() as u64 => {}
            (_, got) => return Some((p.clone(), "metadata", format!("model={} metadata()={}", st, short(&got.as_ref().map(|m| (m.dir, m.len)).map_err(|e| &e.display))))),
        }
        match (node, &e.list) {
            (Some(Node::Dir), Ok(l)) => {
                let mut l2 = l.clone();
                l2.sort();
                let want = m.children(p);
                if l2 != want {
                    return Some((p.clone(), "read_dir", format!("listing {:?} != model {:?}", l2, want)));
                }
            }
            (Some(Node::Dir), Err(er)) => return Some((p.clone(), "read_dir", format!("model=D read_dir() failed: {}", er.display))),
            (_, Ok(l)) => return Some((p.clone(), "read_dir", format!("model={} but read_dir() succeeded with {:?}", st, l))),
            (_, Err(_)) => {}
        }
        match (node, &e.bytes) {
            (Some(Node::File(b)), Ok(g)) => {
                if **b != *g {
                    return Some((p.clone(), "bytes", format!("content differs: got len {} hash {:x}, model len {} hash {:x}", g.len(), hash_bytes(g), b.len(), hash_bytes(b))));
                }
            }
            (Some(Node::File(_)), Err(er)) => return Some((p.clone(), "bytes", format!("model=F but open+read failed: {}", er.display))),
            (_, Ok(g)) => return Some((p.clone(), "bytes", format!("model={} but open+read returned {} bytes", st, g.len()))),
            (_, Err(_)) => {}
        }
    }
    None
}

pub struct SeqCtx {
    pub cfg: RunCfg,
    pub built: Vec<Built>,
    pub exec: Exec,
    pub world: World,
    pub universe: Vec<BTreeSet<String>>,
    pub out: RunOut,
    pub shape: String,
    pub trace_on: bool,
}

pub fn io_kind(name: &str) -> std::io::ErrorKind {
    match name {
        "PermissionDenied" => std::io::ErrorKind::PermissionDenied,
        "StorageFull" => std::io::ErrorKind::StorageFull,
        "TimedOut" => std::io::ErrorKind::TimedOut,
        "InvalidData" => std::io::ErrorKind::InvalidData,
        "NotFound" => std::io::ErrorKind::NotFound,
        _ => std::io::ErrorKind::Other,
    }
}

impl SeqCtx {
    pub fn new(cfg: &RunCfg, trace_on: bool) -> Result<SeqCtx, String> {
        let mut built = vec![];
        for (i, s) in cfg.specs.iter().enumerate() {
            built.push(build(s, mix(cfg.order_seed, i as u64), cfg.permute)?);
        }
        let roots = built.iter().map(|b| b.root.clone()).collect();
        let mut exec = Exec::new(roots);
        for (i, b) in built.iter().enumerate() {
            // environment faults address the physical directory of a plain Phys top node
            if b.nodes[0].kind == "phys" {
                exec.phys_dirs[i] = b.nodes[0].phys_dir.clone();
            }
        }
        let world = World { m: cfg.specs.iter().map(|s| s.view()).collect(), w: Default::default() };
        let mut universe: Vec<BTreeSet<String>> = world.m.iter().map(|m| m.t.keys().cloned().collect()).collect();
        for op in &cfg.ops {
            for p in op.paths() {
                if let Ok(c) = canon(&p.s) {
                    let u = &mut universe[(p.fs as usize).min(built.len() - 1)];
                    for a in ancestors(&c) {
                        u.insert(a);
                    }
                    u.insert(c);
                }
            }
        }
        let shape = cfg.specs.iter().map(|s| s.shape()).collect::<Vec<_>>().join("+");
        // perturbations
        for b in &built {
            let mut f = b.ctl.fault.lock().unwrap();
            f.short_read = cfg.perturb[0];
            f.short_write = cfg.perturb[1];
            f.eintr = cfg.perturb[2];
            f.rng = crate::rng::Rng::new(mix(cfg.seed, 0xFA17));
            drop(f);
            if cfg.perturb != [0, 0, 0] {
                b.ctl.fault_on.store(true, std::sync::atomic::Ordering::SeqCst);
            }
        }
        let mut out = RunOut::default();
        if cfg.specs.iter().any(|s| s.has_dir_over_file()) {
            out.count("probe.overlay.directory_shadows_lower_file");
        }
        Ok(SeqCtx { cfg: cfg.clone(), built, exec, world, universe, out, shape, trace_on })
    }

    pub fn violate(&mut self, step: usize, key: String, detail: String) {
        let property = self.cfg.property.clone();
        self.out.violations.push(Violation { property, key, detail, step });
    }

    pub fn snap(&self, fs: usize, full: bool, walk: bool) -> Snap {
        let b = &self.built[fs];
        b.ctl.quiet(|| snapshot(&b.root, &self.universe[fs], full, walk))
    }

    pub fn grow_universe(&mut self) {
        for (i, m) in self.world.m.iter().enumerate() {
            if i < self.universe.len() {
                for k in m.t.keys() {
                    self.universe[i].insert(k.clone());
                }
            }
        }
    }

    pub fn log(&mut self, h: u64) {
        self.out.log_hash = mix(self.out.log_hash, h);
    }

    pub fn trace(&mut self, s: String) {
        if self.trace_on {
            self.out.trace.push(s);
        }
    }

    pub fn finish(mut self) -> RunOut {
        for b in &self.built {
            let f = b.ctl.fault.lock().unwrap();
            let st = f.stats.clone();
            drop(f);
            self.out.add("fault.trait_err", st.trait_err);
            self.out.add("fault.handle_err", st.handle_err);
            self.out.add("fault.short_read", st.short_read);
            self.out.add("fault.short_write", st.short_write);
            self.out.add("fault.eintr", st.eintr);
            self.out.add("probe.listing_permuted", b.ctl.permuted.load(std::sync::atomic::Ordering::Relaxed));
        }
        self.out
    }
}

/// Judge a result against the model's demand. Returns (key-suffix, detail) on mismatch.
pub fn judge(want: &Want, got: &Res) -> Option<(String, String)> {
    if let Res::Panic(m) = got {
        return Some(("got=Panic".into(), format!("panicked: {}", m)));
    }
    match want {
        Want::Unspec => None,
        Want::Ok(v) => match got {
            Res::Ok(o) => {
                if let Out::Session(steps) = o {
                    if let Some(i) = steps.iter().position(|s| s.is_err()) {
                        if let Some(Out::Session(ws)) = v {
                            if ws.get(i).map(|x| x.is_ok()).unwrap_or(true) {
                                return Some(("want=Ok|got=SessionStepErr".into(), format!("write session step {} failed: {:?}", i, steps[i])));
                            }
                        }
                    }
                }
                if let Some(v) = v {
                    if let Err(d) = value_matches(v, o) {
                        return Some(("want=Ok|got=WrongValue".into(), d));
                    }
                }
                None
            }
            Res::Err(e) => Some((format!("want=Ok|got=Err({:?})", e.class), format!("must succeed, failed with: {}", e.display))),
            Res::Panic(_) => unreachable!(),
        },
        Want::Err(classes) => match got {
            Res::Ok(o) => Some(("want=Err|got=Ok".into(), format!("must fail, returned Ok({})", short(o)))),
            Res::Err(e) => {
                if !classes.is_empty() && !classes.contains(&e.class) {
                    Some((format!("want=Err{:?}|got=Err({:?})", classes, e.class), format!("wrong error class: {}", e.display)))
                } else {
                    None
                }
            }
            Res::Panic(_) => unreachable!(),
        },
    }
}

pub fn canon_targets(op: &Op) -> Vec<String> {
    op.paths().iter().filter_map(|p| canon(&p.s).ok()).collect()
}

/// The generic contract loop (C01, C09, C10, C11 and as a base for others).
/// `after_step` is called with the context after each step for property-specific monitors.
pub type Monitor<'a> = &'a mut dyn FnMut(&mut SeqCtx, usize, &Op, &World, &Want, &Res, &[Snap]) -> bool;

pub fn run_contract(cfg: &RunCfg, trace_on: bool, monitor: Monitor) -> RunOut {
    run_loop(cfg, trace_on, false, monitor)
}

/// `full`: snapshots also record is_file/is_dir per path and walk_dir(root).
pub fn run_loop(cfg: &RunCfg, trace_on: bool, full: bool, monitor: Monitor) -> RunOut {
    let mut cx = match SeqCtx::new(cfg, trace_on) {
        Ok(c) => c,
        Err(e) => {
            return RunOut { harness_error: Some(e), ..Default::default() };
        }
    };
    let mut sig = hash_str(&cx.shape);
    let mut succ_mut = 0;
    let mut demanded_fail = 0;
    // initial snapshot must equal the initial model (a wrong union is visible before any op)
    let ops = cfg.ops.clone();
    let snap_every: usize = cfg.extra.get("snap_every").and_then(|v| v.parse().ok()).unwrap_or(1);
    for i in 0..=ops.len() {
        let before = cx.world.clone();
        let (op, want, got) = if i == 0 {
            (None, Want::Unspec, Res::Ok(Out::Unit))
        } else {
            let op = &ops[i - 1];
            let want = cx.world.apply(op);
            cx.grow_universe();
            if matches!(op, Op::Reopen) && cx.exec.slots.is_empty() {
                // restart: new adapters over the same layers (fs 0)
                if let Err(e) = cx.built[0].reopen(&cfg.specs[0]) {
                    cx.out.harness_error = Some(e);
                    return cx.finish();
                }
                cx.exec.roots[0] = cx.built[0].root.clone();
                cx.exec.kept.clear();
                cx.out.count("fault.restart_adapters_rebuilt");
            }
            let got = cx.exec.exec(op);
            (Some(op), want, got)
        };
        if let Some(op) = op {
            let k = format!("op.{}.{}", op.kind(), got.class());
            cx.out.count(&k);
            sig = mix(sig, hash_str(&k));
            if matches!(want, Want::Ok(_)) && !op.is_observer() {
                succ_mut += 1;
            }
            if matches!(want, Want::Err(_)) {
                demanded_fail += 1;
            }
            cx.log(res_hash(&got));
            if cx.trace_on {
                let t = format!("step {} {:?}\n    want {}  got {}", i, op, want_class(&want), short(&got));
                cx.trace(t);
            }
        }
        // sparse observation (contract checks only): the simulator's own snapshot is a burst of
        // observers - state that only goes wrong when NOTHING looks between two calls needs runs
        // in which the snapshot is skipped for a few steps
        let do_snap = snap_every <= 1 || i == 0 || i == ops.len() || i % snap_every == 0;
        if !do_snap {
            cx.out.count("probe.sparse.steps_without_snapshot");
        }
        let snaps: Vec<Snap> = if do_snap { (0..cx.built.len()).map(|f| cx.snap(f, full, full)).collect() } else { vec![] };
        for s in &snaps {
            cx.log(s.hash());
        }
        let sh = cx.world.m.iter().fold(0u64, |h, m| mix(h, m.state_hash()));
        cx.out.state_hashes.push(sh);
        cx.out.steps += 1;
        let dummy = Op::Exists(P::new(""));
        let opref = op.unwrap_or(&dummy);
        let stop = monitor(&mut cx, i, opref, &before, &want, &got, &snaps);
        if stop || !cx.out.violations.is_empty() {
            break;
        }
    }
    cx.out.signature = sig;
    cx.out.nontrivial = succ_mut >= 3 && demanded_fail >= 1;
    cx.finish()
}

/// Arms the run's fault plan for the operation that executes next (monitor call `i == op_index`),
/// disarms it after that operation. Returns true while the monitor looks at the faulted step.
pub fn fault_window(cx: &mut SeqCtx, i: usize) -> bool {
    let plan = match &cx.cfg.fault {
        Some(p) => p.clone(),
        None => return false,
    };
    // every filesystem of the run (each counts its own calls)
    let ctls: Vec<_> = cx.built.iter().map(|b| b.ctl.clone()).collect();
    if i == plan.op_index {
        for ctl in &ctls {
            let mut f = ctl.fault.lock().unwrap();
            f.armed = true;
            f.counter = 0;
            f.tripped = false;
            f.fail_at = Some(plan.k);
            f.sticky = plan.sticky;
            f.kind = io_kind(&plan.kind);
            f.nodes = plan.nodes;
            f.handles_only = plan.handles_only;
            drop(f);
            ctl.fault_on.store(true, std::sync::atomic::Ordering::SeqCst);
        }
    } else if i == plan.op_index + 1 {
        for ctl in &ctls {
            ctl.fault.lock().unwrap().armed = false;
        }
        return true;
    }
    false
}

/// Standard contract monitor: result class/value + snapshot == model, keyed for `prop`.
pub fn contract_monitor(cx: &mut SeqCtx, i: usize, op: &Op, before: &World, want: &Want, got: &Res, snaps: &[Snap]) -> bool {
    let prop = cx.cfg.property.clone();
    let shape = cx.shape.clone();
    if i > 0 {
        if matches!(want, Want::Unspec) {
            // unspecified combination (only reachable through minimisation): model out of sync
            return true;
        }
        if let Some((k, d)) = judge(want, got) {
            let key = format!("{}|{}|{}|{}|{}", prop, shape, op.kind(), op_tclass(before, op), k);
            cx.violate(i, key, format!("{:?}: {}", op, d));
            return true;
        }
    }
    let targets = if i > 0 { canon_targets(op) } else { vec![] };
    for (f, s) in snaps.iter().enumerate() {
        let skip = cx.world.dirty_paths(f);
        if let Some((p, field, d)) = compare_snap_skip(&cx.world.m[f], s, &skip) {
            let rel = relation(&p, &targets);
            let key = if i == 0 {
                format!("{}|{}|initial|snap|{}", prop, shape, field)
            } else {
                format!("{}|{}|{}|{}|{}|snap|{}@{}", prop, shape, op.kind(), op_tclass(before, op), want_class(want), field, rel)
            };
            let after = if i == 0 { "initially".to_string() } else { format!("after {:?} (result {})", op, got.class()) };
            cx.violate(i, key, format!("{}: path '{}' on fs{}: {}", after, p, f, d));
            return true;
        }
        if !s.panics.is_empty() {
            let key = format!("{}|{}|observer-panic", prop, shape);
            cx.violate(i, key, format!("observer panicked: {}", s.panics[0]));
            return true;
        }
    }
    false
}


/// Contract monitor restricted to the concern of one property: `relevant(op)` says whether a
/// deviating *result* of this op is the property's business, `field_ok(field)` whether a
/// deviating snapshot field is. Any other deviation ends the run silently (the model is out of
/// sync; the deviation belongs to C01).
pub fn scoped_monitor(cx: &mut SeqCtx, i: usize, op: &Op, before: &World, want: &Want, got: &Res, snaps: &[Snap], relevant: &dyn Fn(&Op) -> bool, field_ok: &dyn Fn(&str) -> bool) -> bool {
    let n0 = cx.out.violations.len();
    let stop = contract_monitor(cx, i, op, before, want, got, snaps);
    if cx.out.violations.len() > n0 {
        let v = cx.out.violations.last().unwrap().clone();
        let is_snap = v.key.contains("|snap|");
        let keep = if is_snap {
            let field = v.key.rsplit('|').next().unwrap_or("").split('@').next().unwrap_or("").to_string();
            field_ok(&field) && (i == 0 || relevant(op))
        } else {
            v.key.contains("observer-panic") || relevant(op)
        };
        if !keep {
            cx.out.violations.pop();
            cx.out.count("run_ended_by_deviation_outside_this_property");
            return true;
        }
    }
    stop
}
