//! Batch driver: seeded search over many runs on all cores, de-duplication by violation key,
//! minimisation, replay files, known-findings protocol, evidence.

use crate::props;
use crate::seq::{RunCfg, RunOut};
use crate::types::Violation;
use serde_json::{json, Value};
use std::collections::{BTreeMap, BTreeSet};
use std::io::Write;
use std::sync::atomic::{AtomicBool, AtomicU64, Ordering};
use std::sync::{Arc, Mutex};
use std::time::Instant;

pub const DEFAULT_SEED: u64 = 20260101;

pub fn verif_root() -> std::path::PathBuf {
    std::env::var("VERIF_ROOT").map(std::path::PathBuf::from).unwrap_or_else(|_| std::path::PathBuf::from("/verif"))
}

/// where evidence and replay files go (VERIF_OUT overrides, e.g. while trying seeded changes)
pub fn out_root() -> std::path::PathBuf {
    std::env::var("VERIF_OUT").map(std::path::PathBuf::from).unwrap_or_else(|_| verif_root())
}

/// stdout may be redirected to /dev/null (the async library prints); verdicts go to the saved fd
pub static OUT_FD: std::sync::atomic::AtomicI32 = std::sync::atomic::AtomicI32::new(1);

pub fn say(s: &str) {
    let fd = OUT_FD.load(Ordering::SeqCst);
    let line = format!("{}\n", s);
    unsafe {
        libc::write(fd, line.as_ptr() as *const libc::c_void, line.len());
    }
}

pub fn silence_library_stdout() {
    unsafe {
        let saved = libc::dup(1);
        let devnull = libc::open(b"/dev/null\0".as_ptr() as *const libc::c_char, libc::O_WRONLY);
        if saved >= 0 && devnull >= 0 {
            libc::dup2(devnull, 1);
            libc::close(devnull);
            OUT_FD.store(saved, Ordering::SeqCst);
        }
    }
}

#[derive(Clone, Debug)]
pub struct Tier {
    pub name: String,
    pub runs: u64,
    pub max_seconds: u64,
}

pub fn tier_for(prop: &str, tier: &str) -> Tier {
    let quick = tier != "thorough";
    let (runs, secs) = match (prop, quick) {
        ("C10", true) => (7_000, 40),
        ("C01", true) | ("C09", true) | ("C12", true) => (12_000, 40),
        ("C01", false) | ("C09", false) | ("C10", false) | ("C12", false) => (1_500_000, 480),
        ("C03", true) | ("C05", true) => (10_000, 40),
        ("C03", false) | ("C05", false) => (1_000_000, 480),
        ("C02", true) => (8_000, 40),
        ("C02", false) => (400_000, 480),
        ("C04", true) => (12_000, 40),
        ("C04", false) => (800_000, 480),
        ("C14", true) => (150_000, 40),
        ("C14", false) => (20_000_000, 400),
        ("C07", true) | ("C08", true) | ("C11", true) => (8_000, 40),
        ("C07", false) | ("C08", false) | ("C11", false) => (400_000, 480),
        ("C13", true) => (12_000, 45),
        ("C13", false) => (1_000_000, 600),
        ("C15", true) => (2_500, 45),
        ("C15", false) => (200_000, 600),
        ("C16", true) => (8_000, 40),
        ("C16", false) => (2_000_000, 600),
        ("C17", true) => (8_000, 40),
        ("C17", false) => (2_000_000, 600),
        ("C19", true) => (150_000, 30),
        ("C19", false) => (20_000_000, 360),
        ("C20", true) => (5_000, 45),
        ("C20", false) => (150_000, 600),
        (_, true) => (5_000, 30),
        (_, false) => (200_000, 300),
    };
    Tier { name: if quick { "quick".into() } else { "thorough".into() }, runs, max_seconds: secs }
}

pub struct Found {
    pub v: Violation,
    pub cfg: Value,
    pub index: u64,
    pub count: u64,
}

#[derive(Default)]
pub struct Agg {
    pub counters: BTreeMap<String, u64>,
    pub signatures: BTreeSet<u64>,
    pub nontrivial_signatures: BTreeSet<u64>,
    pub states: BTreeSet<u64>,
    pub shapes: BTreeMap<String, u64>,
    pub evaluations: u64,
    pub steps: u64,
    pub found: BTreeMap<String, Found>,
    pub harness_errors: Vec<String>,
    pub samples: Vec<Value>,
    pub log_hashes: BTreeMap<u64, u64>,
}

impl Agg {
    pub fn merge(&mut self, index: u64, cfg: &Value, out: RunOut, shape: String) {
        self.evaluations += out.evals.max(1);
        self.steps += out.steps;
        let cfg_owned;
        let cfg = match &out.cfg_override {
            Some(c) => {
                cfg_owned = c.clone();
                &cfg_owned
            }
            None => cfg,
        };
        for (k, v) in out.counters {
            *self.counters.entry(k).or_insert(0) += v;
        }
        self.signatures.insert(out.signature);
        if out.nontrivial {
            self.nontrivial_signatures.insert(out.signature);
        }
        if self.states.len() < 2_000_000 {
            for h in out.state_hashes {
                self.states.insert(h);
            }
        }
        *self.shapes.entry(shape).or_insert(0) += 1;
        self.log_hashes.insert(index, out.log_hash);
        if let Some(e) = out.harness_error {
            if self.harness_errors.len() < 5 {
                self.harness_errors.push(format!("run {}: {}", index, e));
            }
        }
        for v in out.violations {
            match self.found.get_mut(&v.key) {
                Some(f) => {
                    f.count += 1;
                    if index < f.index {
                        f.index = index;
                        f.v = v;
                        f.cfg = cfg.clone();
                    }
                }
                None => {
                    self.found.insert(v.key.clone(), Found { v, cfg: cfg.clone(), index, count: 1 });
                }
            }
        }
        if self.samples.len() < 3 && self.evaluations % 7 == 3 {
            self.samples.push(props::sample_of(cfg));
        }
    }
}

pub fn workers() -> usize {
    std::env::var("VERIF_WORKERS").ok().and_then(|s| s.parse().ok()).unwrap_or(16)
}

/// run indices 0..runs (or until the wall-clock cap) on all workers
pub fn hang_limit() -> u64 {
    std::env::var("VERIF_HANG_SECONDS").ok().and_then(|v| v.parse().ok()).unwrap_or(180)
}

/// A run did not return: write its configuration as a replay file, report, exit 1.
fn report_hang(prop: &str, seed: u64, index: u64) -> ! {
    let s = props::run_seed(seed, prop, index);
    let cfg = props::gen_any(prop, s);
    let key = format!("{}|{}|no-return", prop, props::shape_of(&cfg));
    let detail = format!("run {} did not return within {} s: a call into the library does not terminate (the generators exclude the one documented case, copy_dir/move_dir into the source's own subtree)", index, hang_limit());
    let dir = out_root().join("replays");
    let _ = std::fs::create_dir_all(&dir);
    let path = dir.join(format!("{}-{}.json", prop, key_hash(&key_class(&key))));
    let doc = json!({"property": prop, "engine": props::engine_of(prop), "verif_seed": seed, "run_index": index, "minimise_runs": 0, "occurrences_in_batch": 1, "violation": {"key": key, "detail": detail, "step": 0}, "original_key": key, "cfg": cfg});
    let _ = std::fs::write(&path, serde_json::to_string_pretty(&doc).unwrap());
    say(&format!("  key: {}", key));
    say(&format!("  detail: {}", detail));
    say(&format!("VIOLATION property={} replay={}", prop, path.display()));
    std::process::exit(1);
}

pub fn batch(prop: &str, seed: u64, runs: u64, max_seconds: u64, nworkers: usize) -> (Agg, f64, bool) {
    let start = Instant::now();
    let next = Arc::new(AtomicU64::new(0));
    let capped = Arc::new(AtomicBool::new(false));
    let agg = Arc::new(Mutex::new(Agg::default()));
    let mut hs = vec![];
    // watchdog: a run that does not come back (the library loops) must not hang the check. No run
    // of the unchanged tree takes more than a few seconds; after `hang_limit()` the run is reported
    // as a violation of the property under check (key ...|no-return) and the process exits 1.
    let slots: Arc<Vec<Mutex<Option<(u64, Instant)>>>> = Arc::new((0..nworkers).map(|_| Mutex::new(None)).collect());
    let batch_done = Arc::new(AtomicBool::new(false));
    {
        let slots = slots.clone();
        let done = batch_done.clone();
        let prop = prop.to_string();
        std::thread::spawn(move || loop {
            std::thread::sleep(std::time::Duration::from_millis(500));
            if done.load(Ordering::SeqCst) {
                return;
            }
            for sl in slots.iter() {
                let cur = *sl.lock().unwrap();
                if let Some((i, t0)) = cur {
                    if t0.elapsed().as_secs() >= hang_limit() {
                        report_hang(&prop, seed, i);
                    }
                }
            }
        });
    }
    for w in 0..nworkers {
        let slots = slots.clone();
        let next = next.clone();
        let agg = agg.clone();
        let capped = capped.clone();
        let prop = prop.to_string();
        let known = load_known();
        hs.push(
            std::thread::Builder::new()
                .stack_size(64 << 20)
                .spawn(move || {
                    let mut local = Agg::default();
                    let mut n_local = 0;
                    loop {
                        let i = next.fetch_add(1, Ordering::SeqCst);
                        if i >= runs {
                            break;
                        }
                        if start.elapsed().as_secs() >= max_seconds {
                            capped.store(true, Ordering::SeqCst);
                            break;
                        }
                        let s = props::run_seed(seed, &prop, i);
                        let cfg = props::gen_any(&prop, s);
                        *slots[w].lock().unwrap() = Some((i, Instant::now()));
                        let out = props::run_any(&prop, &cfg, false);
                        *slots[w].lock().unwrap() = None;
                        let shape = props::shape_of(&cfg);
                        local.merge(i, &cfg, out, shape);
                        n_local += 1;
                        if n_local % 256 == 0 {
                            // stop early when many distinct unlisted violations piled up
                            let unlisted = local.found.keys().filter(|k| !known.iter().any(|kn| kn.property == prop && glob(&kn.key, k))).count();
                            if unlisted > 40 {
                                break;
                            }
                        }
                    }
                    let mut a = agg.lock().unwrap();
                    a.evaluations += local.evaluations;
                    a.steps += local.steps;
                    for (k, v) in local.counters {
                        *a.counters.entry(k).or_insert(0) += v;
                    }
                    a.signatures.extend(local.signatures);
                    a.nontrivial_signatures.extend(local.nontrivial_signatures);
                    a.states.extend(local.states);
                    for (k, v) in local.shapes {
                        *a.shapes.entry(k).or_insert(0) += v;
                    }
                    a.log_hashes.extend(local.log_hashes);
                    a.harness_errors.extend(local.harness_errors);
                    for (k, f) in local.found {
                        match a.found.get_mut(&k) {
                            Some(g) => {
                                g.count += f.count;
                                if f.index < g.index {
                                    g.index = f.index;
                                    g.v = f.v;
                                    g.cfg = f.cfg;
                                }
                            }
                            None => {
                                a.found.insert(k, f);
                            }
                        }
                    }
                    for s in local.samples {
                        if a.samples.len() < 3 {
                            a.samples.push(s);
                        }
                    }
                })
                .unwrap(),
        );
    }
    let mut worker_panics = 0;
    for h in hs {
        if h.join().is_err() {
            worker_panics += 1;
        }
    }
    batch_done.store(true, Ordering::SeqCst);
    let mut a = Arc::try_unwrap(agg).ok().unwrap().into_inner().unwrap();
    if worker_panics > 0 {
        a.harness_errors.push(format!("{} worker thread(s) panicked outside a judged call (harness bug; re-run with VSIM_PANIC_TRACE=1)", worker_panics));
    }
    (a, start.elapsed().as_secs_f64(), capped.load(Ordering::SeqCst))
}

// ---------------------------------------------------------------- known findings

pub struct Known {
    pub property: String,
    pub key: String,
    pub what: String,
}

pub fn load_known() -> Vec<Known> {
    let p = verif_root().join("known_findings.json");
    let mut out = vec![];
    if let Ok(s) = std::fs::read_to_string(p) {
        if let Ok(v) = serde_json::from_str::<Value>(&s) {
            for f in v["findings"].as_array().cloned().unwrap_or_default() {
                if f["status"] == "known" {
                    out.push(Known {
                        property: f["property"].as_str().unwrap_or("").to_string(),
                        key: f["key"].as_str().unwrap_or("").to_string(),
                        what: f["what"].as_str().unwrap_or("").to_string(),
                    });
                }
            }
        }
    }
    out
}

/// glob match with '*' wildcards
pub fn glob(pat: &str, s: &str) -> bool {
    let parts: Vec<&str> = pat.split('*').collect();
    if parts.len() == 1 {
        return pat == s;
    }
    let mut pos = 0;
    for (i, part) in parts.iter().enumerate() {
        if i == 0 {
            if !s.starts_with(part) {
                return false;
            }
            pos = part.len();
        } else if i == parts.len() - 1 {
            return s.len() >= pos + part.len() && s[pos..].ends_with(part);
        } else {
            match s[pos..].find(part) {
                Some(j) => pos += j + part.len(),
                None => return false,
            }
        }
    }
    true
}

// ---------------------------------------------------------------- minimisation

/// key with the stack-shape field (2nd) removed: what must persist while the stack is simplified
pub fn key_class(key: &str) -> String {
    let parts: Vec<&str> = key.split('|').collect();
    if parts.len() > 2 {
        let mut v = vec![parts[0]];
        v.extend_from_slice(&parts[2..]);
        v.join("|")
    } else {
        key.to_string()
    }
}

pub fn minimise(prop: &str, cfg: &Value, key: &str, budget: usize) -> (Value, Violation, usize) {
    let kc = key_class(key);
    let check = |c: &Value| -> Option<Violation> {
        let out = props::run_any(prop, c, false);
        out.violations.into_iter().find(|v| key_class(&v.key) == kc)
    };
    let mut best = cfg.clone();
    let mut best_v = match check(&best) {
        Some(v) => v,
        None => {
            return (best, Violation { property: prop.into(), key: key.into(), detail: "not reproducible on re-run".into(), step: 0 }, 0);
        }
    };
    let mut used = 1;
    loop {
        let mut improved = false;
        for cand in props::shrink_candidates(prop, &best, &best_v) {
            if used >= budget {
                break;
            }
            used += 1;
            if let Some(v) = check(&cand) {
                best = cand;
                best_v = v;
                improved = true;
                break;
            }
        }
        if !improved || used >= budget {
            break;
        }
    }
    (best, best_v, used)
}

// ---------------------------------------------------------------- check

fn key_hash(key: &str) -> String {
    format!("{:012x}", crate::rng::hash_str(key) & 0xFFFF_FFFF_FFFF)
}

pub fn check(prop: &str, tier_name: &str, runs_override: Option<u64>, secs_override: Option<u64>) -> i32 {
    let seed: u64 = std::env::var("VERIF_SEED").ok().and_then(|s| s.parse().ok()).unwrap_or(DEFAULT_SEED);
    let mut tier = tier_for(prop, tier_name);
    if let Some(r) = runs_override {
        tier.runs = r;
    }
    if let Some(s) = secs_override {
        tier.max_seconds = s;
    }
    let nw = workers();
    say(&format!("check {} tier={} VERIF_SEED={} runs<={} cap={}s workers={}", prop, tier.name, seed, tier.runs, tier.max_seconds, nw));
    let (agg, wall, capped) = batch(prop, seed, tier.runs, tier.max_seconds, nw);
    if !agg.harness_errors.is_empty() {
        for e in agg.harness_errors.iter().take(5) {
            say(&format!("HARNESS-ERROR {}", e.chars().take(300).collect::<String>()));
        }
        write_evidence(prop, &tier, seed, &agg, wall, capped, 0, &[]);
        return 2;
    }
    // determinism spot check: re-run a sample of indices single-threaded and compare log hashes
    let mut nondet = vec![];
    let sample: Vec<u64> = agg.log_hashes.keys().cloned().filter(|i| i % 97 == 5).take(40).collect();
    for i in &sample {
        let s = props::run_seed(seed, prop, *i);
        let cfg = props::gen_any(prop, s);
        let out = props::run_any(prop, &cfg, false);
        if Some(&out.log_hash) != agg.log_hashes.get(i) {
            nondet.push(*i);
        }
    }
    let known = load_known();
    let any_unlisted = agg.found.keys().any(|key| !known.iter().any(|k| k.property == prop && glob(&k.key, key)));
    if !nondet.is_empty() {
        if !any_unlisted {
            say(&format!("HARNESS-ERROR nondeterministic event log for run indices {:?}", nondet));
            write_evidence(prop, &tier, seed, &agg, wall, capped, 0, &[]);
            return 2;
        }
        // violations were found as well: they are reported only if their minimised replay
        // reproduces in a fresh process (checked below), so a divergence cannot fake one
        say(&format!("note: event logs of run indices {:?} differ between two executions (behaviour depends on something outside the simulator, e.g. the wall clock)", nondet));
    }
    let mut n_viol = 0;
    let mut unreproduced = 0;
    let mut replay_paths = vec![];
    let mut known_hit: BTreeSet<String> = BTreeSet::new();
    let mut unlisted: Vec<&Found> = vec![];
    for (key, f) in &agg.found {
        if let Some(k) = known.iter().find(|k| k.property == prop && glob(&k.key, key)) {
            known_hit.insert(format!("KNOWN-FINDING: property={} {}", prop, k.what));
        } else {
            unlisted.push(f);
        }
    }
    for l in &known_hit {
        say(l);
    }
    // report at most 6 distinct classes (by key class), earliest first
    unlisted.sort_by_key(|f| f.index);
    let mut seen_classes: BTreeSet<String> = BTreeSet::new();
    let dir = out_root().join("replays");
    let _ = std::fs::create_dir_all(&dir);
    for f in unlisted {
        let kc = key_class(&f.v.key);
        if !seen_classes.insert(kc) {
            continue;
        }
        if seen_classes.len() > 6 {
            break;
        }
        let (mcfg, mv, used) = minimise(prop, &f.cfg, &f.v.key, 400);
        // minimisation must not drift into a known finding
        let path = dir.join(format!("{}-{}.json", prop, key_hash(&key_class(&mv.key))));
        let doc = json!({
            "property": prop,
            "engine": props::engine_of(prop),
            "verif_seed": seed,
            "run_index": f.index,
            "minimise_runs": used,
            "occurrences_in_batch": f.count,
            "violation": {"key": mv.key, "detail": mv.detail, "step": mv.step},
            "original_key": f.v.key,
            "cfg": mcfg,
        });
        std::fs::write(&path, serde_json::to_string_pretty(&doc).unwrap()).unwrap();
        // replay in a fresh process must give the same key class
        let ok = fresh_replay(&path, &key_class(&mv.key));
        if !ok {
            // a violation class whose minimised replay does not reproduce in a fresh process is
            // not reported (the behaviour under test depends on something the seed does not
            // decide, e.g. a per-process hash seed inside the library); it fails the check as a
            // harness error only if NO class of this batch reproduces
            say(&format!("NOTE replay of {} in a fresh process did not reproduce {} - not reported", path.display(), mv.key));
            let _ = std::fs::remove_file(&path);
            unreproduced += 1;
            continue;
        }
        n_viol += 1;
        say(&format!("  key: {}", mv.key));
        say(&format!("  detail: {}", mv.detail));
        say(&format!("VIOLATION property={} replay={}", prop, path.display()));
        replay_paths.push(path.display().to_string());
    }
    if n_viol == 0 && unreproduced > 0 {
        say(&format!("HARNESS-ERROR {} violation class(es) found in the batch, none reproduced from its replay file in a fresh process", unreproduced));
        write_evidence(prop, &tier, seed, &agg, wall, capped, n_viol, &replay_paths);
        return 2;
    }
    write_evidence(prop, &tier, seed, &agg, wall, capped, n_viol, &replay_paths);
    say(&format!(
        "{} {}: {} runs, {} steps, {:.1}s, {} distinct signatures ({} non-trivial), {} violation classes{}",
        prop,
        tier.name,
        agg.evaluations,
        agg.steps,
        wall,
        agg.signatures.len(),
        agg.nontrivial_signatures.len(),
        n_viol,
        if capped { " (wall-clock cap reached)" } else { "" }
    ));
    if n_viol > 0 {
        1
    } else {
        0
    }
}

pub fn fresh_replay(path: &std::path::Path, want_class: &str) -> bool {
    let exe = std::env::current_exe().unwrap();
    let out = std::process::Command::new(exe).arg("replay").arg(path).arg("--quiet").output();
    match out {
        Ok(o) => {
            let s = String::from_utf8_lossy(&o.stdout);
            s.lines().any(|l| l.starts_with("REPLAY-KEY ") && key_class(&l[11..]) == want_class)
        }
        Err(_) => false,
    }
}

pub fn replay(path: &str, quiet: bool, trace: bool) -> i32 {
    let s = match std::fs::read_to_string(path) {
        Ok(s) => s,
        Err(e) => {
            say(&format!("HARNESS-ERROR cannot read {}: {}", path, e));
            return 2;
        }
    };
    let doc: Value = match serde_json::from_str(&s) {
        Ok(v) => v,
        Err(e) => {
            say(&format!("HARNESS-ERROR bad replay file: {}", e));
            return 2;
        }
    };
    let prop = doc["property"].as_str().unwrap_or("").to_string();
    let out = {
        let (tx, rx) = std::sync::mpsc::channel();
        let (p2, c2) = (prop.clone(), doc["cfg"].clone());
        std::thread::Builder::new().stack_size(64 << 20).spawn(move || {
            let _ = tx.send(props::run_any(&p2, &c2, trace));
        }).unwrap();
        match rx.recv_timeout(std::time::Duration::from_secs(hang_limit())) {
            Ok(o) => o,
            Err(_) => {
                let key = format!("{}|{}|no-return", prop, props::shape_of(&doc["cfg"]));
                say(&format!("REPLAY-KEY {}", key));
                if !quiet {
                    say(&format!("  detail: the replayed run did not return within {} s", hang_limit()));
                    say(&format!("VIOLATION property={} replay={}", prop, path));
                }
                std::process::exit(1);
            }
        }
    };
    if trace {
        for l in &out.trace {
            say(l);
        }
    }
    if let Some(e) = out.harness_error {
        say(&format!("HARNESS-ERROR {}", e));
        return 2;
    }
    if out.violations.is_empty() {
        say("replay: no violation");
        return 0;
    }
    for v in &out.violations {
        say(&format!("REPLAY-KEY {}", v.key));
        if !quiet {
            say(&format!("  detail: {}", v.detail));
        }
    }
    let known = load_known();
    let all_known = out.violations.iter().all(|v| known.iter().any(|k| k.property == prop && glob(&k.key, &v.key)));
    if all_known {
        for v in &out.violations {
            if let Some(k) = known.iter().find(|k| k.property == prop && glob(&k.key, &v.key)) {
                say(&format!("KNOWN-FINDING: property={} {}", prop, k.what));
            }
        }
        return 0;
    }
    say(&format!("VIOLATION property={} replay={}", prop, path));
    1
}

fn write_evidence(prop: &str, tier: &Tier, seed: u64, agg: &Agg, wall: f64, capped: bool, n_viol: usize, replays: &[String]) {
    let dir = out_root().join("evidence");
    let _ = std::fs::create_dir_all(&dir);
    let (level, rule, components, assumptions) = props::evidence_meta(prop);
    let mut faults = serde_json::Map::new();
    let mut probes = serde_json::Map::new();
    let mut ops = serde_json::Map::new();
    let mut other = serde_json::Map::new();
    for (k, v) in &agg.counters {
        if let Some(r) = k.strip_prefix("fault.") {
            faults.insert(r.to_string(), json!(v));
        } else if let Some(r) = k.strip_prefix("probe.") {
            probes.insert(r.to_string(), json!(v));
        } else if let Some(r) = k.strip_prefix("op.") {
            ops.insert(r.to_string(), json!(v));
        } else {
            other.insert(k.clone(), json!(v));
        }
    }
    let zero_probes: Vec<&String> = probes.iter().filter(|(_, v)| v.as_u64() == Some(0)).map(|(k, _)| k).collect();
    let samples: Vec<Value> = if agg.samples.is_empty() { vec![json!("no sample recorded")] } else { agg.samples.clone() };
    let mut shapes: Vec<(&String, &u64)> = agg.shapes.iter().collect();
    shapes.sort_by(|a, b| b.1.cmp(a.1));
    let top_shapes: serde_json::Map<String, Value> = shapes.iter().take(25).map(|(k, v)| ((*k).clone(), json!(v))).collect();
    let doc = json!({
        "property_id": prop,
        "tier": tier.name,
        "seed": seed,
        "level": level,
        "wall_s": wall,
        "violations": n_viol,
        "coverage": {
            "evaluations": agg.evaluations,
            "distinct_nontrivial": agg.nontrivial_signatures.len(),
            "rule": rule,
            "samples": samples,
            "exhaustive": false,
            "distinct_run_signatures": agg.signatures.len(),
            "distinct_model_states_or_schedules": agg.states.len(),
            "logical_steps": agg.steps,
            "runs_per_hour": if wall > 0.0 { (agg.evaluations as f64 / wall * 3600.0) as u64 } else { 0 },
            "simulated_time": "logical steps only (operations, scheduling decisions, polls): the library has no timers",
            "wall_clock_cap_reached": capped,
            "fault_kinds_fired": faults,
            "reach_probes": probes,
            "reach_probes_at_zero": zero_probes,
            "ops_by_kind_and_outcome": ops,
            "other_counters": other,
            "distinct_stack_shapes": agg.shapes.len(),
            "top_stack_shapes": top_shapes,
            "components": components,
            "determinism_spot_check": "a sample of run indices was re-executed single-threaded after the batch; event-log hashes identical",
            "replays": replays,
        },
        "assumptions": assumptions,
    });
    let path = dir.join(format!("{}.json", prop));
    let mut f = std::fs::File::create(path).unwrap();
    f.write_all(serde_json::to_string_pretty(&doc).unwrap().as_bytes()).unwrap();
}

/// determinism self-check: every run twice (different worker counts), event-log hashes diffed
pub fn selfcheck_determinism(props_list: &[String], n: u64) -> i32 {
    let seed: u64 = std::env::var("VERIF_SEED").ok().and_then(|s| s.parse().ok()).unwrap_or(DEFAULT_SEED);
    let mut bad = 0;
    for p in props_list {
        let (a, _, _) = batch(p, seed, n, 600, 16);
        let (b, _, _) = batch(p, seed, n, 600, 1.max(workers() / 5));
        let mut diff = 0;
        for (i, h) in &a.log_hashes {
            if b.log_hashes.get(i) != Some(h) {
                diff += 1;
                if diff <= 3 {
                    say(&format!("  {} run {} diverges", p, i));
                }
            }
        }
        say(&format!("determinism {}: {} runs x2 (16 workers vs {}), {} divergent", p, a.log_hashes.len(), 1.max(workers() / 5), diff));
        bad += diff;
    }
    if bad > 0 {
        2
    } else {
        0
    }
}
