//! C13: no operation panics. Unrestricted domain, every fault kind on; the only oracle is
//! `catch_unwind` around every call, every handle call and every observation.

use crate::model::*;
use crate::seq::*;
use crate::types::*;
use std::sync::atomic::Ordering;

fn norm(msg: &str) -> String {
    // strip numbers and quoted values so that one defect gives one key
    let mut out = String::new();
    let mut in_digits = false;
    for c in msg.chars() {
        if c.is_ascii_digit() {
            if !in_digits {
                out.push('#');
            }
            in_digits = true;
        } else {
            in_digits = false;
            out.push(c);
        }
    }
    // quoted values (paths, characters) depend on which entry a hash map happens to hand out first:
    // the key keeps the text up to the first quote only
    let cut = out.find(|c| c == '\'' || c == '`' || c == '"').unwrap_or(out.len());
    out[..cut].chars().take(90).collect()
}

pub fn run_c13(cfg: &RunCfg, trace: bool) -> RunOut {
    let mut cx = match SeqCtx::new(cfg, trace) {
        Ok(c) => c,
        Err(e) => return RunOut { harness_error: Some(e), ..Default::default() },
    };
    let shape = cx.shape.clone();
    let mut sig = crate::rng::hash_str(&shape);
    let mut n_err = 0;
    let mut n_ok = 0;
    for (idx, op) in cfg.ops.iter().enumerate() {
        let i = idx + 1;
        cx.out.steps += 1;
        let before = cx.world.clone();
        let _ = cx.world.apply(op);
        cx.grow_universe();
        if let Some(plan) = &cfg.fault {
            if plan.op_index == idx {
                let ctl = cx.built[0].ctl.clone();
                let mut f = ctl.fault.lock().unwrap();
                f.armed = true;
                f.counter = 0;
                f.tripped = false;
                f.fail_at = Some(plan.k);
                f.sticky = plan.sticky;
                f.kind = io_kind(&plan.kind);
                f.nodes = plan.nodes;
                drop(f);
                ctl.fault_on.store(true, Ordering::SeqCst);
            } else if plan.op_index + 1 == idx && !plan.sticky {
                let ctl = cx.built[0].ctl.clone();
                ctl.fault.lock().unwrap().armed = false;
            }
        }
        let got = cx.exec.exec(op);
        let k = format!("op.{}.{}", op.kind(), got.class());
        cx.out.count(&k);
        sig = crate::rng::mix(sig, crate::rng::hash_str(&k));
        cx.log(res_hash(&got));
        if cx.trace_on {
            cx.trace(format!("step {} {:?} -> {}", i, op, short(&got)));
        }
        match &got {
            Res::Ok(_) => n_ok += 1,
            Res::Err(_) => n_err += 1,
            Res::Panic(m) => {
                let _ = &before;
                let key = format!("C13|{}|panic:{}", shape, norm(m));
                cx.violate(i, key, format!("step {} {:?} panicked: {}", i, op, m));
                break;
            }
        }
        let snap = cx.snap(0, true, true);
        cx.log(snap.hash());
        if let Some(p) = snap.panics.first() {
            let key = format!("C13|{}|observer|panic:{}", shape, norm(p));
            cx.violate(i, key, format!("an observer panicked after step {} {:?}: {}", i, op, p));
            break;
        }
    }
    // dropping open handles must not panic either
    let slots: Vec<u8> = cx.exec.slots.keys().cloned().collect();
    for s in slots {
        if let Res::Panic(m) = cx.exec.exec(&Op::HDrop(s)) {
            let key = format!("C13|{}|h_drop|panic:{}", shape, norm(&m));
            let n = cfg.ops.len();
            cx.violate(n, key, format!("dropping an open handle at the end panicked: {}", m));
            break;
        }
    }
    // the same call sequence through the async port (every 4th run; no EmbeddedFS there)
    if cx.out.violations.is_empty() && cfg.seed % 4 == 0 && !matches!(cfg.specs[0], crate::stack::Spec::Emb) {
        use crate::asyncsim::*;
        // which executor context: none at all / a tokio runtime entered for the whole run / a
        // tokio runtime entered only while the stack is CREATED (the calls then run without one)
        let mode = (cfg.seed / 4) % 3;
        let rt = if mode > 0 { tokio::runtime::Builder::new_current_thread().build().ok() } else { None };
        let built = {
            let _g = rt.as_ref().map(|r| r.enter());
            abuild(&cfg.specs[0], crate::rng::mix(cfg.order_seed, 0), cfg.permute, crate::rng::mix(cfg.seed, 0xA5), 40)
        };
        let _guard_for_calls = if mode == 1 { rt.as_ref().map(|r| r.enter()) } else { None };
        cx.out.count(["probe.c13.async_no_runtime", "probe.c13.async_inside_tokio", "probe.c13.async_created_inside_tokio_used_outside"][mode as usize]);
        if let Ok(ab) = built {
            let mut ax = AExec { root: ab.root.clone(), slots: Default::default(), others: vec![] };
            ab.ctl.on.store(true, Ordering::SeqCst);
            cx.out.count("probe.c13.async_runs");
            if let Some(plan) = &cfg.fault {
                // the same kind of I/O failure through the async wrappers
                ab.ctl.fail_at.store(plan.k * (1 + plan.op_index as u64), Ordering::SeqCst);
                ab.ctl.sticky.store(plan.sticky, Ordering::SeqCst);
            }
            for (idx, op) in cfg.ops.iter().enumerate() {
                if let Op::EnvSpecial(_, k) = op {
                    if k % 4 == 3 {
                        // the physical root directories of the async stack disappear
                        if let Some(b) = &ab.base {
                            if let Ok(rd) = std::fs::read_dir(b) {
                                for e in rd.flatten() {
                                    // the root directory of each physical node (whatever it is called)
                                    if let Ok(inner) = std::fs::read_dir(e.path()) {
                                        for x in inner.flatten() {
                                            if x.path().is_dir() && x.file_name() != "via" {
                                                let _ = std::fs::remove_dir_all(x.path());
                                            }
                                        }
                                    }
                                }
                            }
                            cx.out.count("probe.c13.async_physical_root_removed");
                        }
                    }
                }
                let mut st = PollStats::default();
                let r = ax.exec(op, &mut st);
                cx.out.steps += 1;
                cx.out.count(&format!("op.async.{}.{}", op.kind(), r.class()));
                if let Res::Panic(m) = &r {
                    if m.starts_with("EXECUTOR:") {
                        continue;
                    }
                    let key = format!("C13|{}|async|panic:{}", shape, norm(m));
                    cx.violate(idx + 1, key, format!("async step {} {:?} panicked: {}", idx + 1, op, m));
                    break;
                }
            }
            ab.ctl.on.store(false, Ordering::SeqCst);
            cx.out.add("fault.async_call_error", ab.ctl.faults_fired.load(Ordering::SeqCst));
            if cx.out.violations.is_empty() {
                let uni = cx.universe[0].clone();
                if let Ok(s) = asnapshot(&ab, &uni) {
                    if let Some(p) = s.panics.first() {
                        let key = format!("C13|{}|async|observer|panic:{}", shape, norm(p));
                        let n = cfg.ops.len();
                        cx.violate(n, key, format!("an async observer panicked at the end: {}", p));
                    }
                }
            }
            ax.slots.clear();
        }
    }
    cx.out.signature = sig;
    cx.out.nontrivial = n_ok >= 3 && n_err >= 2;
    cx.out.state_hashes.push(sig);
    cx.finish()
}
