//! `SimFS`: the one harness wrapper implementing the public `FileSystem` trait. Depending on the
//! shared control block it (a) sorts and seed-permutes listings (OrderFS), (b) records every call
//! (RecFS), (c) injects faults and legal perturbations (FaultFS), (d) yields to the thread
//! scheduler before every call (SchedFS).

use crate::rng::{hash_str, mix, Rng};
use std::io::{self, Read, Seek, SeekFrom, Write};
use std::sync::atomic::{AtomicBool, AtomicU64, Ordering};
use std::sync::{Arc, Mutex};
use std::time::SystemTime;
use vfs::error::VfsErrorKind;
use vfs::{FileSystem, SeekAndRead, SeekAndWrite, VfsError, VfsMetadata, VfsResult};

#[derive(Clone, Debug, PartialEq, Eq)]
pub struct Rec {
    pub node: u16,
    pub method: &'static str,
    pub path: String,
    pub path2: Option<String>,
    pub ok: bool,
    pub mutating: bool,
    pub on_handle: bool,
}

#[derive(Clone, Debug, Default)]
pub struct FaultStats {
    pub trait_err: u64,
    pub handle_err: u64,
    pub short_read: u64,
    pub short_write: u64,
    pub eintr: u64,
}

#[derive(Debug)]
pub struct FaultState {
    /// counting / injecting only while armed
    pub armed: bool,
    /// calls seen while armed
    pub counter: u64,
    /// fail the call with this 1-based index (while armed)
    pub fail_at: Option<u64>,
    /// after the first injected failure keep failing every call
    pub sticky: bool,
    pub tripped: bool,
    /// count (and fail) only calls on open handles: reads and writes in the middle of a transfer
    pub handles_only: bool,
    pub kind: io::ErrorKind,
    /// nodes whose calls are counted / failed (bit per node id); 0 = none
    pub nodes: u64,
    /// legal perturbations (never change outcomes): percent chances
    pub short_read: u32,
    pub short_write: u32,
    pub eintr: u32,
    pub rng: Rng,
    pub stats: FaultStats,
}

impl Default for FaultState {
    fn default() -> Self {
        FaultState {
            armed: false,
            counter: 0,
            fail_at: None,
            sticky: false,
            tripped: false,
            handles_only: false,
            kind: io::ErrorKind::Other,
            nodes: 0,
            short_read: 0,
            short_write: 0,
            eintr: 0,
            rng: Rng::new(0),
            stats: FaultStats::default(),
        }
    }
}

pub type SchedHook = Arc<dyn Fn(&'static str) + Send + Sync>;

/// Control block shared by all SimFS nodes of one stack.
pub struct Ctl {
    pub order_seed: AtomicU64,
    pub permute: AtomicBool,
    pub rec_on: AtomicBool,
    pub log: Mutex<Vec<Rec>>,
    pub fault: Mutex<FaultState>,
    pub fault_on: AtomicBool,
    pub sched: Mutex<Option<SchedHook>>,
    pub sched_on: AtomicBool,
    /// number of read_dir calls whose listing had >= 2 entries and was actually permuted
    pub permuted: AtomicU64,
    /// report mutating calls that happen while recording is switched off by `quiet` (the
    /// simulator's own observations: snapshots use pure observers only)
    pub watch_quiet: AtomicBool,
    pub quiet_offence: Mutex<Option<Rec>>,
}

impl std::fmt::Debug for Ctl {
    fn fmt(&self, f: &mut std::fmt::Formatter<'_>) -> std::fmt::Result {
        f.write_str("Ctl")
    }
}

impl Ctl {
    pub fn new(order_seed: u64, permute: bool) -> Arc<Ctl> {
        Arc::new(Ctl {
            order_seed: AtomicU64::new(order_seed),
            permute: AtomicBool::new(permute),
            rec_on: AtomicBool::new(false),
            log: Mutex::new(vec![]),
            fault: Mutex::new(FaultState::default()),
            fault_on: AtomicBool::new(false),
            sched: Mutex::new(None),
            sched_on: AtomicBool::new(false),
            permuted: AtomicU64::new(0),
            watch_quiet: AtomicBool::new(false),
            quiet_offence: Mutex::new(None),
        })
    }
    pub fn take_log(&self) -> Vec<Rec> {
        std::mem::take(&mut *self.log.lock().unwrap())
    }
    pub fn set_rec(&self, on: bool) -> bool {
        self.rec_on.swap(on, Ordering::SeqCst)
    }
    /// run `f` with recording, faults and scheduling switched off (for observation)
    pub fn quiet<T>(&self, f: impl FnOnce() -> T) -> T {
        let r = self.rec_on.swap(false, Ordering::SeqCst);
        let fo = self.fault_on.swap(false, Ordering::SeqCst);
        let so = self.sched_on.swap(false, Ordering::SeqCst);
        let out = f();
        self.rec_on.store(r, Ordering::SeqCst);
        self.fault_on.store(fo, Ordering::SeqCst);
        self.sched_on.store(so, Ordering::SeqCst);
        out
    }
    fn record(&self, rec: Rec) {
        if self.rec_on.load(Ordering::Relaxed) {
            self.log.lock().unwrap().push(rec);
        } else if rec.mutating && self.watch_quiet.load(Ordering::Relaxed) {
            // a mutating call while the simulator only observes (its own snapshots run "quiet")
            let mut o = self.quiet_offence.lock().unwrap();
            if o.is_none() {
                *o = Some(rec);
            }
        }
    }
    fn yield_sched(&self, label: &'static str) {
        if self.sched_on.load(Ordering::Relaxed) {
            let h = self.sched.lock().unwrap().clone();
            if let Some(h) = h {
                h(label);
            }
        }
    }
    /// Some(kind) if this call must fail
    fn fault_check(&self, node: u16, on_handle: bool) -> Option<io::ErrorKind> {
        if !self.fault_on.load(Ordering::Relaxed) {
            return None;
        }
        let mut f = self.fault.lock().unwrap();
        if !f.armed || (f.nodes >> node) & 1 == 0 || (f.handles_only && !on_handle) {
            return None;
        }
        f.counter += 1;
        let hit = (f.sticky && f.tripped) || f.fail_at == Some(f.counter);
        if hit {
            f.tripped = true;
            if on_handle {
                f.stats.handle_err += 1;
            } else {
                f.stats.trait_err += 1;
            }
            Some(f.kind)
        } else {
            None
        }
    }
}

fn injected(kind: io::ErrorKind) -> io::Error {
    io::Error::new(kind, "injected fault")
}

pub struct SimFS {
    pub inner: Box<dyn FileSystem>,
    pub node: u16,
    pub ctl: Arc<Ctl>,
}

impl std::fmt::Debug for SimFS {
    fn fmt(&self, f: &mut std::fmt::Formatter<'_>) -> std::fmt::Result {
        write!(f, "SimFS#{}({:?})", self.node, self.inner)
    }
}

impl SimFS {
    pub fn new<T: FileSystem>(inner: T, node: u16, ctl: Arc<Ctl>) -> SimFS {
        SimFS { inner: Box::new(inner), node, ctl }
    }
    fn pre(&self, label: &'static str, mutating: bool) -> VfsResult<()> {
        self.ctl.yield_sched(label);
        if let Some(kind) = self.ctl.fault_check(self.node, false) {
            // a not-found failure is injected into MUTATING calls only: from an observer it
            // would be an answer ("absent"), not a failure
            let kind = if kind == io::ErrorKind::NotFound && !mutating { io::ErrorKind::Other } else { kind };
            return Err(VfsError::from(injected(kind)));
        }
        Ok(())
    }
    fn rec<T>(&self, method: &'static str, path: &str, path2: Option<&str>, mutating: bool, r: &VfsResult<T>) {
        self.ctl.record(Rec {
            node: self.node,
            method,
            path: path.to_string(),
            path2: path2.map(|s| s.to_string()),
            ok: r.is_ok(),
            mutating,
            on_handle: false,
        });
    }
}

macro_rules! fwd {
    ($self:ident, $label:literal, $path:expr, $p2:expr, $mutating:expr, $call:expr) => {{
        let r = match $self.pre($label, $mutating) {
            Ok(()) => $call,
            Err(e) => Err(e),
        };
        $self.rec($label, $path, $p2, $mutating, &r);
        r
    }};
}

impl FileSystem for SimFS {
    fn read_dir(&self, path: &str) -> VfsResult<Box<dyn Iterator<Item = String> + Send>> {
        let r = fwd!(self, "read_dir", path, None, false, self.inner.read_dir(path));
        let mut it = r?;
        let _ = it.size_hint();
        let mut v: Vec<String> = it.by_ref().collect();
        // the backend's iterator after its end: asking again and asking for the size hint are legal
        // (a panic here surfaces as a panic of the calling operation); further items are ignored
        let _ = it.size_hint();
        let _ = it.next();
        let _ = it.size_hint();
        drop(it);
        v.sort();
        if self.ctl.permute.load(Ordering::Relaxed) && v.len() > 1 {
            let seed = self.ctl.order_seed.load(Ordering::Relaxed);
            let mut rng = Rng::new(mix(mix(seed, self.node as u64), hash_str(path)));
            rng.shuffle(&mut v);
            self.ctl.permuted.fetch_add(1, Ordering::Relaxed);
        }
        Ok(Box::new(v.into_iter()))
    }
    fn create_dir(&self, path: &str) -> VfsResult<()> {
        fwd!(self, "create_dir", path, None, true, self.inner.create_dir(path))
    }
    fn open_file(&self, path: &str) -> VfsResult<Box<dyn SeekAndRead + Send>> {
        let r = fwd!(self, "open_file", path, None, false, self.inner.open_file(path));
        let h = r?;
        Ok(Box::new(SimRead { inner: h, node: self.node, ctl: self.ctl.clone(), path: path.to_string() }))
    }
    fn create_file(&self, path: &str) -> VfsResult<Box<dyn SeekAndWrite + Send>> {
        let r = fwd!(self, "create_file", path, None, true, self.inner.create_file(path));
        let h = r?;
        Ok(Box::new(SimWrite { inner: Some(h), node: self.node, ctl: self.ctl.clone(), path: path.to_string() }))
    }
    fn append_file(&self, path: &str) -> VfsResult<Box<dyn SeekAndWrite + Send>> {
        let r = fwd!(self, "append_file", path, None, true, self.inner.append_file(path));
        let h = r?;
        Ok(Box::new(SimWrite { inner: Some(h), node: self.node, ctl: self.ctl.clone(), path: path.to_string() }))
    }
    fn metadata(&self, path: &str) -> VfsResult<VfsMetadata> {
        fwd!(self, "metadata", path, None, false, self.inner.metadata(path))
    }
    fn set_creation_time(&self, path: &str, time: SystemTime) -> VfsResult<()> {
        fwd!(self, "set_creation_time", path, None, true, self.inner.set_creation_time(path, time))
    }
    fn set_modification_time(&self, path: &str, time: SystemTime) -> VfsResult<()> {
        fwd!(self, "set_modification_time", path, None, true, self.inner.set_modification_time(path, time))
    }
    fn set_access_time(&self, path: &str, time: SystemTime) -> VfsResult<()> {
        fwd!(self, "set_access_time", path, None, true, self.inner.set_access_time(path, time))
    }
    fn exists(&self, path: &str) -> VfsResult<bool> {
        fwd!(self, "exists", path, None, false, self.inner.exists(path))
    }
    fn remove_file(&self, path: &str) -> VfsResult<()> {
        fwd!(self, "remove_file", path, None, true, self.inner.remove_file(path))
    }
    fn remove_dir(&self, path: &str) -> VfsResult<()> {
        fwd!(self, "remove_dir", path, None, true, self.inner.remove_dir(path))
    }
    fn copy_file(&self, src: &str, dest: &str) -> VfsResult<()> {
        let r = fwd!(self, "copy_file", src, Some(dest), true, self.inner.copy_file(src, dest));
        // an unsupported fast path is not a mutation attempt
        r
    }
    fn move_file(&self, src: &str, dest: &str) -> VfsResult<()> {
        fwd!(self, "move_file", src, Some(dest), true, self.inner.move_file(src, dest))
    }
    fn move_dir(&self, src: &str, dest: &str) -> VfsResult<()> {
        fwd!(self, "move_dir", src, Some(dest), true, self.inner.move_dir(src, dest))
    }
}

/// Is this VfsError a pass-through "not supported" (optional fast path absent)?
pub fn is_not_supported(e: &VfsError) -> bool {
    matches!(e.kind(), VfsErrorKind::NotSupported)
}

pub struct SimRead {
    inner: Box<dyn SeekAndRead + Send>,
    node: u16,
    ctl: Arc<Ctl>,
    path: String,
}

impl SimRead {
    fn rec(&self, method: &'static str, ok: bool) {
        self.ctl.record(Rec {
            node: self.node,
            method,
            path: self.path.clone(),
            path2: None,
            ok,
            mutating: false,
            on_handle: true,
        });
    }
}

impl Read for SimRead {
    fn read(&mut self, buf: &mut [u8]) -> io::Result<usize> {
        self.ctl.yield_sched("h.read");
        if let Some(kind) = self.ctl.fault_check(self.node, true).map(|k| if k == io::ErrorKind::NotFound { io::ErrorKind::Other } else { k }) {
            self.rec("h.read", false);
            return Err(injected(kind));
        }
        let mut n = buf.len();
        if self.ctl.fault_on.load(Ordering::Relaxed) && n > 0 {
            let mut f = self.ctl.fault.lock().unwrap();
            if f.eintr > 0 {
                let p = f.eintr;
                if f.rng.pct(p) {
                    f.stats.eintr += 1;
                    return Err(io::Error::new(io::ErrorKind::Interrupted, "injected EINTR"));
                }
            }
            if f.short_read > 0 && n > 1 {
                let p = f.short_read;
                if f.rng.pct(p) {
                    n = 1 + f.rng.below(n - 1);
                    f.stats.short_read += 1;
                }
            }
        }
        let r = self.inner.read(&mut buf[..n]);
        self.rec("h.read", r.is_ok());
        r
    }
    /// forwarded (one fault point, one recorded call): the wrapped handle's own implementation runs
    fn read_vectored(&mut self, bufs: &mut [io::IoSliceMut<'_>]) -> io::Result<usize> {
        self.ctl.yield_sched("h.read_vectored");
        if let Some(kind) = self.ctl.fault_check(self.node, true).map(|k| if k == io::ErrorKind::NotFound { io::ErrorKind::Other } else { k }) {
            self.rec("h.read_vectored", false);
            return Err(injected(kind));
        }
        let r = self.inner.read_vectored(bufs);
        self.rec("h.read_vectored", r.is_ok());
        r
    }
    fn read_exact(&mut self, buf: &mut [u8]) -> io::Result<()> {
        self.ctl.yield_sched("h.read_exact");
        if let Some(kind) = self.ctl.fault_check(self.node, true).map(|k| if k == io::ErrorKind::NotFound { io::ErrorKind::Other } else { k }) {
            self.rec("h.read_exact", false);
            return Err(injected(kind));
        }
        let r = self.inner.read_exact(buf);
        self.rec("h.read_exact", r.is_ok());
        r
    }
    /// forwarded so that a specialised `read_to_end` of the wrapped handle is the code that runs
    fn read_to_end(&mut self, buf: &mut Vec<u8>) -> io::Result<usize> {
        self.ctl.yield_sched("h.read_to_end");
        if let Some(kind) = self.ctl.fault_check(self.node, true).map(|k| if k == io::ErrorKind::NotFound { io::ErrorKind::Other } else { k }) {
            self.rec("h.read_to_end", false);
            return Err(injected(kind));
        }
        let r = self.inner.read_to_end(buf);
        self.rec("h.read_to_end", r.is_ok());
        r
    }
}

impl Seek for SimRead {
    fn seek(&mut self, pos: SeekFrom) -> io::Result<u64> {
        self.ctl.yield_sched("h.seek");
        if let Some(kind) = self.ctl.fault_check(self.node, true).map(|k| if k == io::ErrorKind::NotFound { io::ErrorKind::Other } else { k }) {
            self.rec("h.seek", false);
            return Err(injected(kind));
        }
        let r = self.inner.seek(pos);
        self.rec("h.seek", r.is_ok());
        r
    }
}

pub struct SimWrite {
    inner: Option<Box<dyn SeekAndWrite + Send>>,
    node: u16,
    ctl: Arc<Ctl>,
    path: String,
}

impl SimWrite {
    fn rec(&self, method: &'static str, ok: bool) {
        self.ctl.record(Rec {
            node: self.node,
            method,
            path: self.path.clone(),
            path2: None,
            ok,
            mutating: true,
            on_handle: true,
        });
    }
}

impl Write for SimWrite {
    fn write(&mut self, buf: &[u8]) -> io::Result<usize> {
        self.ctl.yield_sched("h.write");
        if let Some(kind) = self.ctl.fault_check(self.node, true).map(|k| if k == io::ErrorKind::NotFound { io::ErrorKind::Other } else { k }) {
            self.rec("h.write", false);
            return Err(injected(kind));
        }
        let mut n = buf.len();
        if self.ctl.fault_on.load(Ordering::Relaxed) && n > 0 {
            let mut f = self.ctl.fault.lock().unwrap();
            if f.eintr > 0 {
                let p = f.eintr;
                if f.rng.pct(p) {
                    f.stats.eintr += 1;
                    return Err(io::Error::new(io::ErrorKind::Interrupted, "injected EINTR"));
                }
            }
            if f.short_write > 0 && n > 1 {
                let p = f.short_write;
                if f.rng.pct(p) {
                    n = 1 + f.rng.below(n - 1);
                    f.stats.short_write += 1;
                }
            }
        }
        let r = self.inner.as_mut().unwrap().write(&buf[..n]);
        self.rec("h.write", r.is_ok());
        r
    }
    fn write_vectored(&mut self, bufs: &[io::IoSlice<'_>]) -> io::Result<usize> {
        self.ctl.yield_sched("h.write_vectored");
        if let Some(kind) = self.ctl.fault_check(self.node, true).map(|k| if k == io::ErrorKind::NotFound { io::ErrorKind::Other } else { k }) {
            self.rec("h.write_vectored", false);
            return Err(injected(kind));
        }
        let r = self.inner.as_mut().unwrap().write_vectored(bufs);
        self.rec("h.write_vectored", r.is_ok());
        r
    }
    fn flush(&mut self) -> io::Result<()> {
        self.ctl.yield_sched("h.flush");
        if let Some(kind) = self.ctl.fault_check(self.node, true).map(|k| if k == io::ErrorKind::NotFound { io::ErrorKind::Other } else { k }) {
            self.rec("h.flush", false);
            return Err(injected(kind));
        }
        let r = self.inner.as_mut().unwrap().flush();
        self.rec("h.flush", r.is_ok());
        r
    }
}

impl Seek for SimWrite {
    fn seek(&mut self, pos: SeekFrom) -> io::Result<u64> {
        self.ctl.yield_sched("h.wseek");
        if let Some(kind) = self.ctl.fault_check(self.node, true).map(|k| if k == io::ErrorKind::NotFound { io::ErrorKind::Other } else { k }) {
            self.rec("h.wseek", false);
            return Err(injected(kind));
        }
        let r = self.inner.as_mut().unwrap().seek(pos);
        self.rec("h.wseek", r.is_ok());
        r
    }
}

impl Drop for SimWrite {
    fn drop(&mut self) {
        self.ctl.yield_sched("h.drop");
        let h = self.inner.take();
        drop(h);
        self.rec("h.drop", true);
    }
}
