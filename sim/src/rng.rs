//! Own PRNG (SplitMix64) so that results never change with a crate version.

#[derive(Clone, Debug)]
pub struct Rng(pub u64);

pub fn mix(a: u64, b: u64) -> u64 {
    let mut z = a
        .wrapping_mul(0x9E37_79B9_7F4A_7C15)
        .wrapping_add(b)
        .wrapping_add(0x632B_E59B_D9B4_E019);
    z = (z ^ (z >> 30)).wrapping_mul(0xBF58_476D_1CE4_E5B9);
    z = (z ^ (z >> 27)).wrapping_mul(0x94D0_49BB_1331_11EB);
    z ^ (z >> 31)
}

pub fn hash_str(s: &str) -> u64 {
    // FNV-1a, stable across processes (std's DefaultHasher is not guaranteed to be)
    let mut h: u64 = 0xcbf2_9ce4_8422_2325;
    for b in s.as_bytes() {
        h ^= *b as u64;
        h = h.wrapping_mul(0x0000_0100_0000_01B3);
    }
    h
}

pub fn hash_bytes(s: &[u8]) -> u64 {
    let mut h: u64 = 0xcbf2_9ce4_8422_2325;
    for b in s {
        h ^= *b as u64;
        h = h.wrapping_mul(0x0000_0100_0000_01B3);
    }
    h
}

impl Rng {
    pub fn new(seed: u64) -> Rng {
        Rng(mix(seed, 0x5EED))
    }
    pub fn next_u64(&mut self) -> u64 {
        self.0 = self.0.wrapping_add(0x9E37_79B9_7F4A_7C15);
        let mut z = self.0;
        z = (z ^ (z >> 30)).wrapping_mul(0xBF58_476D_1CE4_E5B9);
        z = (z ^ (z >> 27)).wrapping_mul(0x94D0_49BB_1331_11EB);
        z ^ (z >> 31)
    }
    /// uniform in 0..n (n > 0)
    pub fn below(&mut self, n: usize) -> usize {
        if n <= 1 {
            return 0;
        }
        (self.next_u64() % n as u64) as usize
    }
    /// uniform in lo..=hi
    pub fn range(&mut self, lo: usize, hi: usize) -> usize {
        lo + self.below(hi - lo + 1)
    }
    /// true with probability pct/100
    pub fn pct(&mut self, pct: u32) -> bool {
        (self.next_u64() % 100) < pct as u64
    }
    pub fn pick<'a, T>(&mut self, xs: &'a [T]) -> &'a T {
        &xs[self.below(xs.len())]
    }
    pub fn shuffle<T>(&mut self, xs: &mut [T]) {
        for i in (1..xs.len()).rev() {
            let j = self.below(i + 1);
            xs.swap(i, j);
        }
    }
    pub fn fork(&mut self, tag: u64) -> Rng {
        Rng::new(mix(self.next_u64(), tag))
    }
    /// weighted choice: returns index
    pub fn weighted(&mut self, ws: &[u32]) -> usize {
        let total: u64 = ws.iter().map(|w| *w as u64).sum();
        if total == 0 {
            return 0;
        }
        let mut x = self.next_u64() % total;
        for (i, w) in ws.iter().enumerate() {
            if x < *w as u64 {
                return i;
            }
            x -= *w as u64;
        }
        ws.len() - 1
    }
}
