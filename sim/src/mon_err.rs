//! C12: errors name the caller's path and classify consistently.

use crate::model::*;
use crate::seq::*;
use crate::types::*;

pub const PLACEHOLDER: &str = "PATH NOT FILLED BY VFS LAYER";
/// tokens that only occur in inner namespaces (altroot directories, areas beside them, overlay
/// bookkeeping, physical scratch directories) — never in the caller's universe
pub const INNER_TOKENS: &[&str] = &["ALTROOT_", "BESIDE_", "LAYERDIR_", ".whiteout", "_wo'", "/dev/shm", "vsim-", ".scratch"];

pub fn check_error(e: &ErrInfo, op: &Op) -> Option<(String, String)> {
    check_error_opt(e, op, false)
}

/// `os_text_exempt`: the text of an operating-system / runtime I/O error is not rust-vfs's (async-std
/// puts the host path of the failing call into its messages); everything before it still counts
pub fn check_error_opt(e: &ErrInfo, op: &Op, os_text_exempt: bool) -> Option<(String, String)> {
    if e.io_only {
        return None;
    }
    let e = &if os_text_exempt {
        let mut c = e.clone();
        if let Some(k) = c.display.find("IO error: ") {
            c.display.truncate(k + 10);
        }
        c
    } else {
        e.clone()
    };
    if e.path == PLACEHOLDER || e.display.contains(PLACEHOLDER) {
        return Some(("placeholder-path".into(), format!("error path not filled: {}", e.display)));
    }
    for t in INNER_TOKENS {
        // ".whiteout" is the overlay's bookkeeping DIRECTORY: it counts as a whole component only
        // (".whiteouts" or ".whiteout.bak" are ordinary names of the caller)
        let hit = |text: &str| -> bool {
            if *t == ".whiteout" {
                text.match_indices(".whiteout").any(|(k, _)| {
                    let before_ok = k == 0 || text.as_bytes()[k - 1] == b'/';
                    let after = text.as_bytes().get(k + 9).copied();
                    before_ok && matches!(after, None | Some(b'/') | Some(b'\'') | Some(b' ') | Some(b':') | Some(b'"'))
                })
            } else {
                text.contains(t)
            }
        };
        if hit(&e.path) || hit(&e.display) {
            return Some((format!("inner-namespace-leak:{}", t.trim_matches('\'')), format!("error mentions an underlying-layer name: path='{}' display={}", e.path, e.display)));
        }
    }
    let raw: Vec<&str> = op.paths().iter().map(|p| p.s.as_str()).collect();
    if raw.iter().any(|r| *r == e.path) {
        return None;
    }
    let targets = canon_targets(op);
    let related = targets.iter().any(|t| e.path == *t || is_under(&e.path, t) || is_under(t, &e.path) || e.path.is_empty());
    if !related {
        return Some(("foreign-path".into(), format!("error path '{}' is neither the receiver, the destination nor an ancestor/descendant of them ({:?}); display: {}", e.path, targets, e.display)));
    }
    None
}

/// a time setter on an entry that is missing from an existing directory: not-found (or
/// not-supported where the setter is not implemented), whatever layer reports it
fn missing_target_class(m: &Model, c: &str, got: &Res, supported: Option<bool>) -> Option<(String, String)> {
    if c.is_empty() || m.exists(c) || !m.is_dir(&parent_of(c)) {
        return None;
    }
    match got {
        // where the receiving layer implements the setter, "not supported" is the wrong answer
        Res::Err(e) if e.class == ErrClass::NotSupported && supported == Some(true) => Some(("missing-target:want=Err[NotFound]|got=Err(NotSupported)".to_string(), format!("the entry is missing from an existing directory and the stack implements this setter; it answered {}", e.display))),
        // ... and where it does not implement it, "not supported" is the answer whatever the path
        Res::Err(e) if e.class == ErrClass::NotFound && supported == Some(false) => Some(("missing-target:want=Err[NotSupported]|got=Err(NotFound)".to_string(), format!("the stack does not implement this setter (it must answer not-supported); it answered {}", e.display))),
        Res::Err(e) if matches!(e.class, ErrClass::NotFound | ErrClass::NotSupported) => None,
        Res::Err(e) if e.io_only => None,
        other => Some((format!("missing-target:want=Err[NotFound|NotSupported]|got={}", other.class()), format!("the entry is missing from an existing directory; the setter answered {}", short(other)))),
    }
}

pub fn run(cfg: &RunCfg, trace: bool) -> RunOut {
    let mut out = run_sync(cfg, trace);
    // the async path type and adapters: same history, same rules for every error they return
    if out.violations.is_empty() && out.harness_error.is_none() && cfg.seed % 3 == 0 && !has_emb(&cfg.specs[0]) {
        if let Some((key, detail, step)) = async_mirror(cfg, &mut out) {
            out.violations.push(Violation { property: cfg.property.clone(), key, detail, step });
        }
    }
    out
}

fn has_emb(s: &crate::stack::Spec) -> bool {
    use crate::stack::Spec;
    match s {
        Spec::Emb => true,
        Spec::Mem { .. } | Spec::Phys { .. } => false,
        Spec::Alt { inner, .. } => has_emb(inner),
        Spec::Ovl { layers } => layers.iter().any(has_emb),
        Spec::OvlSub { base, .. } => has_emb(base),
    }
}

fn async_mirror(cfg: &RunCfg, out: &mut RunOut) -> Option<(String, String, usize)> {
    use crate::asyncsim::*;
    use std::sync::atomic::Ordering;
    let rt = tokio::runtime::Builder::new_current_thread().build().ok()?;
    let _guard = rt.enter();
    let ab = abuild(&cfg.specs[0], crate::rng::mix(cfg.order_seed, 0), cfg.permute, crate::rng::mix(cfg.seed, 0xC12A), 20).ok()?;
    out.count("probe.c12.async_runs");
    let shape = format!("{}/async", cfg.specs[0].shape());
    let mut ax = AExec { root: ab.root.clone(), slots: Default::default(), others: vec![] };
    let mut world = World { m: vec![cfg.specs[0].view()], w: Default::default() };
    for (idx, op) in cfg.ops.iter().enumerate() {
        let i = idx + 1;
        let before = world.clone();
        let want = world.apply(op);
        let faulted = cfg.fault.as_ref().map(|p| p.op_index == idx).unwrap_or(false);
        ab.ctl.on.store(true, Ordering::SeqCst);
        if faulted {
            ab.ctl.calls.store(0, Ordering::SeqCst);
            ab.ctl.sticky.store(cfg.fault.as_ref().unwrap().sticky, Ordering::SeqCst);
            ab.ctl.fail_at.store(cfg.fault.as_ref().unwrap().k, Ordering::SeqCst);
        }
        let fired0 = ab.ctl.faults_fired.load(Ordering::SeqCst);
        let mut st = PollStats::default();
        let got = ax.exec(op, &mut st);
        ab.ctl.fail_at.store(0, Ordering::SeqCst);
        ab.ctl.on.store(false, Ordering::SeqCst);
        let tripped = ab.ctl.faults_fired.load(Ordering::SeqCst) > fired0;
        let mut errs: Vec<ErrInfo> = vec![];
        match &got {
            Res::Err(e) => errs.push(e.clone()),
            Res::Ok(Out::Walk(items)) => {
                for it in items {
                    if let Err(e) = it {
                        errs.push(e.clone());
                    }
                }
            }
            Res::Panic(_) => return None,
            _ => {}
        }
        let tcl = op_tclass(&before, op);
        for e in &errs {
            out.count("probe.c12.async_errors_inspected");
            if let Some((k, d)) = check_error_opt(e, op, true) {
                return Some((format!("C12|{}|{}|{}|{}{}", shape, op.kind(), tcl, k, if tripped { "|under-injected-failure" } else { "" }), format!("async port, step {} {:?}{}: {}", i, op, if tripped { " (one underlying call failed with an injected I/O error)" } else { "" }, d), i));
            }
        }
        if tripped {
            out.count("probe.c12.async_step_with_injected_failure");
            return None;
        }
        if let Op::SetTime(p, ..) = op {
            let c = canon(&p.s).unwrap_or_default();
            if let Some((k, d)) = missing_target_class(&before.m[0], &c, &got, None) {
                return Some((format!("C12|{}|{}|{}|{}", shape, op.kind(), tcl, k), format!("async port, step {} {:?}: {}", i, op, d), i));
            }
            continue;
        }
        if matches!(want, Want::Unspec) {
            return None;
        }
        if let Want::Err(classes) = &want {
            if !classes.is_empty() {
                if let Res::Err(e) = &got {
                    if !classes.contains(&e.class) {
                        return Some((format!("C12|{}|{}|{}|want=Err{:?}|got=Err({:?})", shape, op.kind(), tcl, classes, e.class), format!("async port, step {} {:?}: wrong error class: {}", i, op, e.display), i));
                    }
                }
            }
        }
        if judge(&want, &got).is_some() {
            return None; // sync/async outcome differences are C15's business
        }
    }
    None
}

fn run_sync(cfg: &RunCfg, trace: bool) -> RunOut {
    // is creation time supported at the top? (PhysicalFS does not implement set_creation_time)
    let top_phys_like = match &cfg.specs[0] {
        crate::stack::Spec::Phys { .. } => true,
        crate::stack::Spec::Alt { inner, .. } => matches!(**inner, crate::stack::Spec::Phys { .. }),
        _ => false,
    };
    run_loop(cfg, trace, false, &mut |cx, i, op, before, want, got, snaps| {
        let faulted_step = fault_window(cx, i);
        if i == 0 {
            return false;
        }
        let tripped = faulted_step && cx.built[0].ctl.fault.lock().unwrap().tripped;
        if tripped {
            cx.out.count("probe.c12.step_with_injected_failure");
        }
        let shape = cx.shape.clone();
        let tcl = op_tclass(before, op);
        // collect every error this step produced: the result itself and error items of a walk
        let mut errs: Vec<ErrInfo> = vec![];
        match got {
            Res::Err(e) => errs.push(e.clone()),
            Res::Ok(Out::Walk(items)) => {
                for it in items {
                    if let Err(e) = it {
                        errs.push(e.clone());
                    }
                }
            }
            Res::Panic(_) => return true,
            _ => {}
        }
        for e in &errs {
            cx.out.count("probe.c12.errors_inspected");
            if let Some((k, d)) = check_error(e, op) {
                let key = format!("C12|{}|{}|{}|{}{}", shape, op.kind(), tcl, k, if tripped { "|under-injected-failure" } else { "" });
                cx.violate(i, key, format!("step {} {:?}{}: {}", i, op, if tripped { " (one underlying call failed with an injected I/O error)" } else { "" }, d));
                return true;
            }
            if tripped {
                cx.out.count("probe.c12.errors_inspected_under_injected_failure");
            }
        }
        if tripped {
            // the classification rules are about the fault-free contract; the state after a
            // failed composite is unspecified (C20), so the run ends here
            return true;
        }
        // classification
        if let Op::SetTime(p, f, ..) = op {
            let c = canon(&p.s).unwrap_or_default();
            let sup = crate::mon_time::receiver_support(&cx.cfg.specs[0], *f);
            if let Some((k, d)) = missing_target_class(&before.m[0], &c, got, sup) {
                let key = format!("C12|{}|{}|{}|{}", shape, op.kind(), tcl, k);
                cx.violate(i, key, format!("step {} {:?}: {}", i, op, d));
                return true;
            }
            if top_phys_like && *f == TField::Created && before.m[0].exists(&c) {
                cx.out.count("probe.c12.unsupported_setter_called");
                match got {
                    Res::Err(e) if e.class == ErrClass::NotSupported => {}
                    other => {
                        let key = format!("C12|{}|{}|{}|want=Err[NotSupported]|got={}", shape, op.kind(), tcl, other.class());
                        cx.violate(i, key, format!("step {} {:?}: unimplemented optional operation must report not-supported, got {}", i, op, short(other)));
                        return true;
                    }
                }
            }
            return false;
        }
        if matches!(want, Want::Unspec) {
            return true;
        }
        if let Want::Err(classes) = want {
            if !classes.is_empty() {
                cx.out.count("probe.c12.classified_failures");
                if let Res::Err(e) = got {
                    if !classes.contains(&e.class) {
                        let key = format!("C12|{}|{}|{}|want=Err{:?}|got=Err({:?})", shape, op.kind(), tcl, classes, e.class);
                        cx.violate(i, key, format!("step {} {:?}: wrong error class: {}", i, op, e.display));
                        return true;
                    }
                }
            }
        }
        // a contract deviation is not C12's business, but ends the run (model out of sync)
        if judge(want, got).is_some() {
            return true;
        }
        for (f, s) in snaps.iter().enumerate() {
            if compare_snap(&cx.world.m[f], s).is_some() {
                return true;
            }
        }
        false
    })
}
