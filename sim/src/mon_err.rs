//! C12: errors name the caller's path and classify consistently.

use crate::model::*;
use crate::seq::*;
use crate::types::*;

pub const PLACEHOLDER: &str = "PATH NOT FILLED BY VFS LAYER";
/// tokens that only occur in inner namespaces (altroot directories, areas beside them, overlay
/// bookkeeping, physical scratch directories) — never in the caller's universe
pub const INNER_TOKENS: &[&str] = &["ALTROOT_", "BESIDE_", "LAYERDIR_", ".whiteout", "_wo'", "/dev/shm", "vsim-", ".scratch"];

pub fn check_error(e: &ErrInfo, op: &Op) -> Option<(String, String)> {
    if e.io_only {
        return None;
    }
    if e.path == PLACEHOLDER || e.display.contains(PLACEHOLDER) {
        return Some(("placeholder-path".into(), format!("error path not filled: {}", e.display)));
    }
    for t in INNER_TOKENS {
        if e.path.contains(t) || e.display.contains(t) {
            return Some((format!("inner-namespace-leak:{}", t.trim_matches('\'')), format!("error mentions an underlying-layer name: path='{}' display={}", e.path, e.display)));
        }
    }
    let raw: Vec<&str> = op.paths().iter().map(|p| p.s.as_str()).collect();
    if raw.iter().any(|r| *r == e.path) {
        return None;
    }
    let targets = canon_targets(op);
    let related = targets.iter().any(|t| e.path == *t || is_under(&e.path, t) || is_under(t, &e.path) || e.path.is_empty());
    if !related {
        return Some(("foreign-path".into(), format!("error path '{}' is neither the receiver, the destination nor an ancestor/descendant of them ({:?}); display: {}", e.path, targets, e.display)));
    }
    None
}

pub fn run(cfg: &RunCfg, trace: bool) -> RunOut {
    // is creation time supported at the top? (PhysicalFS does not implement set_creation_time)
    let top_phys_like = match &cfg.specs[0] {
        crate::stack::Spec::Phys { .. } => true,
        crate::stack::Spec::Alt { inner, .. } => matches!(**inner, crate::stack::Spec::Phys { .. }),
        _ => false,
    };
    run_loop(cfg, trace, false, &mut |cx, i, op, before, want, got, snaps| {
        let faulted_step = fault_window(cx, i);
        if i == 0 {
            return false;
        }
        let tripped = faulted_step && cx.built[0].ctl.fault.lock().unwrap().tripped;
        if tripped {
            cx.out.count("probe.c12.step_with_injected_failure");
        }
        let shape = cx.shape.clone();
        let tcl = op_tclass(before, op);
        // collect every error this step produced: the result itself and error items of a walk
        let mut errs: Vec<ErrInfo> = vec![];
        match got {
            Res::Err(e) => errs.push(e.clone()),
            Res::Ok(Out::Walk(items)) => {
                for it in items {
                    if let Err(e) = it {
                        errs.push(e.clone());
                    }
                }
            }
            Res::Panic(_) => return true,
            _ => {}
        }
        for e in &errs {
            cx.out.count("probe.c12.errors_inspected");
            if let Some((k, d)) = check_error(e, op) {
                let key = format!("C12|{}|{}|{}|{}{}", shape, op.kind(), tcl, k, if tripped { "|under-injected-failure" } else { "" });
                cx.violate(i, key, format!("step {} {:?}{}: {}", i, op, if tripped { " (one underlying call failed with an injected I/O error)" } else { "" }, d));
                return true;
            }
            if tripped {
                cx.out.count("probe.c12.errors_inspected_under_injected_failure");
            }
        }
        if tripped {
            // the classification rules are about the fault-free contract; the state after a
            // failed composite is unspecified (C20), so the run ends here
            return true;
        }
        // classification
        if let Op::SetTime(p, f, ..) = op {
            let c = canon(&p.s).unwrap_or_default();
            if top_phys_like && *f == TField::Created && before.m[0].exists(&c) {
                cx.out.count("probe.c12.unsupported_setter_called");
                match got {
                    Res::Err(e) if e.class == ErrClass::NotSupported => {}
                    other => {
                        let key = format!("C12|{}|{}|{}|want=Err[NotSupported]|got={}", shape, op.kind(), tcl, other.class());
                        cx.violate(i, key, format!("step {} {:?}: unimplemented optional operation must report not-supported, got {}", i, op, short(other)));
                        return true;
                    }
                }
            }
            return false;
        }
        if matches!(want, Want::Unspec) {
            return true;
        }
        if let Want::Err(classes) = want {
            if !classes.is_empty() {
                cx.out.count("probe.c12.classified_failures");
                if let Res::Err(e) = got {
                    if !classes.contains(&e.class) {
                        let key = format!("C12|{}|{}|{}|want=Err{:?}|got=Err({:?})", shape, op.kind(), tcl, classes, e.class);
                        cx.violate(i, key, format!("step {} {:?}: wrong error class: {}", i, op, e.display));
                        return true;
                    }
                }
            }
        }
        // a contract deviation is not C12's business, but ends the run (model out of sync)
        if judge(want, got).is_some() {
            return true;
        }
        for (f, s) in snaps.iter().enumerate() {
            if compare_snap(&cx.world.m[f], s).is_some() {
                return true;
            }
        }
        false
    })
}
