//! Twin monitors: C02 (MemoryFS vs PhysicalFS in lock-step) and C07 (AltrootFS vs the translated
//! operation on an identical underlying filesystem, plus confinement).

use crate::model::*;
use crate::observe::{snapshot, Entry, Snap};
use crate::seq::*;
use crate::stack::Spec;
use crate::types::*;
use std::collections::BTreeSet;

pub fn map_op(op: &Op, f: &dyn Fn(&P) -> P, slot_off: u8) -> Op {
    match op {
        Op::Exists(p) => Op::Exists(f(p)),
        Op::Metadata(p) => Op::Metadata(f(p)),
        Op::IsFile(p) => Op::IsFile(f(p)),
        Op::IsDir(p) => Op::IsDir(f(p)),
        Op::ReadDir(p) => Op::ReadDir(f(p)),
        Op::ReadFile(p, b) => Op::ReadFile(f(p), *b),
        Op::ReadToString(p) => Op::ReadToString(f(p)),
        Op::WalkDir(p) => Op::WalkDir(f(p)),
        Op::WalkAfter { p, muts, after } => Op::WalkAfter { p: f(p), muts: muts.iter().map(|m| map_op(m, f, slot_off)).collect(), after: *after },
        Op::CreateDir(p) => Op::CreateDir(f(p)),
        Op::CreateDirAll(p) => Op::CreateDirAll(f(p)),
        Op::RemoveFile(p) => Op::RemoveFile(f(p)),
        Op::RemoveDir(p) => Op::RemoveDir(f(p)),
        Op::RemoveDirAll(p) => Op::RemoveDirAll(f(p)),
        Op::Write { p, append, script } => Op::Write { p: f(p), append: *append, script: script.clone() },
        Op::CopyFile(a, b) => Op::CopyFile(f(a), f(b)),
        Op::MoveFile(a, b) => Op::MoveFile(f(a), f(b)),
        Op::CopyDir(a, b) => Op::CopyDir(f(a), f(b)),
        Op::MoveDir(a, b) => Op::MoveDir(f(a), f(b)),
        Op::SetTime(p, t, s, n) => Op::SetTime(f(p), *t, *s, *n),
        Op::OpenRead(p, s) => Op::OpenRead(f(p), s + slot_off),
        Op::OpenWrite { p, append, slot } => Op::OpenWrite { p: f(p), append: *append, slot: slot + slot_off },
        Op::HRead(s, n) => Op::HRead(s + slot_off, *n),
        Op::HSeek(s, w, o) => Op::HSeek(s + slot_off, *w, *o),
        Op::HWrite(s, pl) => Op::HWrite(s + slot_off, pl.clone()),
        Op::HFlush(s) => Op::HFlush(s + slot_off),
        Op::HDrop(s) => Op::HDrop(s + slot_off),
        Op::EnvNonUtf8(p) => Op::EnvNonUtf8(f(p)),
        Op::EnvDanglingSymlink(p) => Op::EnvDanglingSymlink(f(p)),
        Op::EnvRemoveBehind(p) => Op::EnvRemoveBehind(f(p)),
        Op::EnvSpecial(p, k) => Op::EnvSpecial(f(p), *k),
        Op::Reopen => Op::Reopen,
    }
}

/// equivalence of two successful values; `strip` removes a namespace prefix from paths of `b`
pub fn out_equiv(a: &Out, b: &Out, strip: &str) -> Result<(), String> {
    let st = |s: &String| -> String { s.strip_prefix(strip).map(|x| x.to_string()).unwrap_or_else(|| format!("<outside>{}", s)) };
    match (a, b) {
        (Out::Names(x), Out::Names(y)) => {
            let mut x2 = x.clone();
            let mut y2: Vec<String> = y.iter().map(st).collect();
            x2.sort();
            y2.sort();
            if x2 == y2 {
                Ok(())
            } else {
                Err(format!("listings differ: {:?} vs {:?}", x2, y2))
            }
        }
        (Out::Walk(x), Out::Walk(y)) => {
            let mut x2: Vec<String> = x.iter().map(|i| i.clone().unwrap_or_else(|e| format!("ERR:{:?}", e.class))).collect();
            let mut y2: Vec<String> = y.iter().map(|i| i.clone().map(|s| st(&s)).unwrap_or_else(|e| format!("ERR:{:?}", e.class))).collect();
            x2.sort();
            y2.sort();
            if x2 == y2 {
                Ok(())
            } else {
                Err(format!("walks differ: {:?} vs {:?}", x2, y2))
            }
        }
        (Out::Meta(x), Out::Meta(y)) => {
            if x.dir == y.dir && x.len == y.len {
                Ok(())
            } else {
                Err(format!("metadata differ: (dir={},len={}) vs (dir={},len={})", x.dir, x.len, y.dir, y.len))
            }
        }
        (Out::Session(x), Out::Session(y)) => {
            let xs: Vec<Result<u64, ()>> = x.iter().map(|r| r.clone().map_err(|_| ())).collect();
            let ys: Vec<Result<u64, ()>> = y.iter().map(|r| r.clone().map_err(|_| ())).collect();
            if xs == ys {
                Ok(())
            } else {
                Err(format!("write session steps differ: {:?} vs {:?}", xs, ys))
            }
        }
        (x, y) => {
            if x == y {
                Ok(())
            } else {
                Err(format!("values differ: {} vs {}", short(x), short(y)))
            }
        }
    }
}

pub fn pair_verdict(r0: &Res, r1: &Res, strip: &str, strict_class: bool) -> Option<(String, String)> {
    match (r0, r1) {
        (Res::Panic(m), _) | (_, Res::Panic(m)) => Some(("panic".into(), format!("panicked: {}", m))),
        (Res::Ok(a), Res::Ok(b)) => match (a, b) {
            (Out::Session(x), Out::Session(y)) if x.iter().all(|r| r.is_ok()) != y.iter().all(|r| r.is_ok()) => {
                Some(("Ok-vs-SessionErr".into(), format!("write session succeeded on one side only: {:?} vs {:?}", short(x), short(y))))
            }
            _ => out_equiv(a, b, strip).err().map(|d| ("value".to_string(), d)),
        },
        (Res::Err(a), Res::Err(b)) => {
            if strict_class && a.class != b.class {
                Some((format!("Err({:?})-vs-Err({:?})", a.class, b.class), format!("error classes differ: '{}' vs '{}'", a.display, b.display)))
            } else {
                None
            }
        }
        (a, b) => Some((format!("{}-vs-{}", a.class(), b.class()), format!("one side succeeded, the other failed: {} vs {}", short(a), short(b)))),
    }
}

fn entry_equiv(a: &Entry, b: &Entry, strip: &str) -> Option<(&'static str, String)> {
    let ex = |e: &Entry| matches!(e.exists, Ok(true));
    if ex(a) != ex(b) {
        return Some(("exists", format!("{:?} vs {:?}", a.exists.as_ref().ok(), b.exists.as_ref().ok())));
    }
    match (&a.meta, &b.meta) {
        (Ok(x), Ok(y)) if x.dir == y.dir && x.len == y.len => {}
        (Err(_), Err(_)) => {}
        (x, y) => return Some(("metadata", format!("{} vs {}", short(&x.as_ref().map(|m| (m.dir, m.len)).map_err(|e| e.class)), short(&y.as_ref().map(|m| (m.dir, m.len)).map_err(|e| e.class))))),
    }
    match (&a.list, &b.list) {
        (Ok(x), Ok(y)) => {
            let mut x2 = x.clone();
            let mut y2: Vec<String> = y.iter().map(|s| s.strip_prefix(strip).unwrap_or(s).to_string()).collect();
            x2.sort();
            y2.sort();
            if x2 != y2 {
                return Some(("read_dir", format!("{:?} vs {:?}", x2, y2)));
            }
        }
        (Err(_), Err(_)) => {}
        (x, y) => return Some(("read_dir", format!("ok={} vs ok={}", x.is_ok(), y.is_ok()))),
    }
    match (&a.bytes, &b.bytes) {
        (Ok(x), Ok(y)) if x == y => {}
        (Err(_), Err(_)) => {}
        (x, y) => return Some(("bytes", format!("{} vs {}", short(&x.as_ref().map(|b| (b.len(), crate::rng::hash_bytes(b))).map_err(|e| e.class)), short(&y.as_ref().map(|b| (b.len(), crate::rng::hash_bytes(b))).map_err(|e| e.class))))),
    }
    None
}

// ------------------------------------------------------------------------------------ C02

pub fn run_c02(cfg: &RunCfg, trace: bool) -> RunOut {
    let mut cx = match SeqCtx::new(cfg, trace) {
        Ok(c) => c,
        Err(e) => return RunOut { harness_error: Some(e), ..Default::default() },
    };
    let mut sig = crate::rng::hash_str(&cx.shape);
    let (mut succ_mut, mut demanded_fail) = (0, 0);
    let to1 = |p: &P| P { fs: 1, s: p.s.clone() };
    for i in 0..=cfg.ops.len() {
        let before = cx.world.clone();
        let mut stepinfo = "initial".to_string();
        if i > 0 {
            let op = &cfg.ops[i - 1];
            let want = cx.world.apply(op);
            cx.grow_universe();
            let op1 = map_op(op, &to1, 100);
            let r0 = cx.exec.exec(op);
            let r1 = cx.exec.exec(&op1);
            let k = format!("op.{}.{}", op.kind(), r0.class());
            cx.out.count(&k);
            sig = crate::rng::mix(sig, crate::rng::hash_str(&k));
            if matches!(want, Want::Ok(_)) && !op.is_observer() {
                succ_mut += 1;
            }
            if matches!(want, Want::Err(_)) {
                demanded_fail += 1;
            }
            cx.log(res_hash(&r0));
            cx.log(res_hash(&r1));
            if cx.trace_on {
                cx.trace(format!("step {} {:?}\n    mem  {}\n    phys {}", i, op, short(&r0), short(&r1)));
            }
            let tcl = op_tclass(&before, op);
            stepinfo = format!("{}({})", op.kind(), tcl);
            if let Some((k, d)) = pair_verdict(&r0, &r1, "", false) {
                let key = format!("C02|mem+phys|{}|{}|{}", op.kind(), tcl, k);
                cx.violate(i, key, format!("step {} {:?}: memory vs physical: {}", i, op, d));
                break;
            }
            // the named classes must agree where the statement demands them
            if let Want::Err(classes) = &want {
                if !classes.is_empty() {
                    if let (Res::Err(a), Res::Err(b)) = (&r0, &r1) {
                        if a.class != b.class {
                            let key = format!("C02|mem+phys|{}|{}|class:{:?}-vs-{:?}", op.kind(), tcl, a.class, b.class);
                            cx.violate(i, key, format!("step {} {:?}: error classes differ where {:?} is demanded: '{}' vs '{}'", i, op, classes, a.display, b.display));
                            break;
                        }
                    }
                }
            }
            // ... and one backend alone must not call an entry "missing" that is there: a single-path
            // call on an EXISTING entry (its parent therefore an existing directory) answered with the
            // not-found class by exactly one side is a disagreement on that class
            if let (Res::Err(a), Res::Err(b)) = (&r0, &r1) {
                let ps = op.paths();
                if ps.len() == 1 && (a.class == ErrClass::NotFound) != (b.class == ErrClass::NotFound) {
                    if let Ok(c) = canon(&ps[0].s) {
                        if before.m[0].exists(&c) && !before.w.values().any(|w| w.path == c) {
                            let key = format!("C02|mem+phys|{}|{}|not-found-on-one-side:{:?}-vs-{:?}", op.kind(), tcl, a.class, b.class);
                            cx.violate(i, key, format!("step {} {:?}: the entry exists, one backend alone reports not-found: '{}' vs '{}'", i, op, a.display, b.display));
                            break;
                        }
                    }
                }
            }
            if r0.is_panic() || r1.is_panic() {
                break;
            }
        }
        let uni = cx.universe[0].clone();
        cx.universe[1] = uni;
        let s0 = cx.snap(0, false, false);
        let s1 = cx.snap(1, false, false);
        cx.log(s0.hash());
        cx.log(s1.hash());
        cx.out.steps += 1;
        cx.out.state_hashes.push(cx.world.m[0].state_hash());
        let skip = cx.world.dirty_paths(0);
        let mut bad = None;
        for (p, e0) in &s0.e {
            if skip.contains(p) {
                continue;
            }
            match s1.e.get(p) {
                Some(e1) => {
                    if let Some((field, d)) = entry_equiv(e0, e1, "") {
                        bad = Some((p.clone(), field, d));
                        break;
                    }
                }
                None => {
                    bad = Some((p.clone(), "reachability", "path reachable by listing on memory only".into()));
                    break;
                }
            }
        }
        if bad.is_none() {
            if let Some(p) = s1.e.keys().find(|p| !s0.e.contains_key(*p)) {
                bad = Some((p.clone(), "reachability", "path reachable by listing on physical only".into()));
            }
        }
        if let Some((p, field, d)) = bad {
            let key = format!("C02|mem+phys|after={}|snap|{}", stepinfo, field);
            cx.violate(i, key, format!("after step {}: '{}' differs between memory and physical: {} ({})", i, p, field, d));
            break;
        }
    }
    cx.out.signature = sig;
    cx.out.nontrivial = succ_mut >= 3 && demanded_fail >= 1;
    cx.finish()
}

// ------------------------------------------------------------------------------------ C07

pub fn run_c07(cfg: &RunCfg, trace: bool) -> RunOut {
    let mut cx = match SeqCtx::new(cfg, trace) {
        Ok(c) => c,
        Err(e) => return RunOut { harness_error: Some(e), ..Default::default() },
    };
    let pfx = match &cfg.specs[0] {
        Spec::Alt { p, .. } => p.clone(),
        _ => return RunOut { harness_error: Some("C07 needs an altroot on top".into()), ..Default::default() },
    };
    // world.m[0] = altroot view (drives generation, already applied by the generator), m[1] = U'
    let mut sig = crate::rng::hash_str(&cx.shape);
    let (mut succ_mut, mut demanded_fail) = (0, 0);
    // universe of U / U': everything of U's view plus P+q for the altroot universe
    let mut uni_u: BTreeSet<String> = cx.world.m[1].t.keys().cloned().collect();
    for a in ancestors(&pfx) {
        uni_u.insert(a);
    }
    uni_u.insert(pfx.clone());
    let u_root = cx.built[0].nodes[1].root.clone();
    // the builder created the altroot directory P inside U; the twin needs the same chain
    {
        let b1 = &cx.built[1];
        let r = b1.ctl.quiet(|| crate::ops::resolve(&b1.root, &pfx).and_then(|p| p.create_dir_all()));
        if let Err(e) = r {
            return RunOut { harness_error: Some(format!("twin altroot dir: {}", e)), ..Default::default() };
        }
        for a in ancestors(&pfx) {
            cx.world.m[1].t.entry(a).or_insert(Node::Dir);
        }
        cx.world.m[1].t.entry(pfx.clone()).or_insert(Node::Dir);
    }
    let rec_node = cx.built[0].nodes[1].id;
    for i in 0..=cfg.ops.len() {
        let before = cx.world.clone();
        let mut stepinfo = "initial".to_string();
        if i > 0 {
            let op = &cfg.ops[i - 1];
            // translated twin
            let mut invalid = false;
            let twin = map_op(
                op,
                &|p: &P| match canon(&p.s) {
                    Ok(c) => P { fs: 1, s: format!("{}{}", pfx, c) },
                    Err(()) => P { fs: 1, s: "/INVALID/".into() },
                },
                100,
            );
            if op.paths().iter().any(|p| canon(&p.s).is_err()) {
                invalid = true;
            }
            let want = cx.world.apply(op);
            let _ = cx.world.apply(&twin);
            cx.grow_universe();
            for q in cx.universe[0].clone() {
                uni_u.insert(format!("{}{}", pfx, q));
            }
            cx.built[0].ctl.take_log();
            cx.built[0].ctl.set_rec(true);
            let r0 = cx.exec.exec(op);
            cx.built[0].ctl.set_rec(false);
            let log = cx.built[0].ctl.take_log();
            let r1 = cx.exec.exec(&twin);
            let k = format!("op.{}.{}", op.kind(), r0.class());
            cx.out.count(&k);
            sig = crate::rng::mix(sig, crate::rng::hash_str(&k));
            if matches!(want, Want::Ok(_)) && !op.is_observer() {
                succ_mut += 1;
            }
            if matches!(want, Want::Err(_)) {
                demanded_fail += 1;
            }
            if op.paths().iter().any(|p| canon(&p.s).map(|c| c != p.s).unwrap_or(true)) {
                cx.out.count("probe.c07.hostile_path_expression");
            }
            cx.log(res_hash(&r0));
            cx.log(res_hash(&r1));
            if cx.trace_on {
                cx.trace(format!("step {} {:?}\n    altroot {}\n    twin    {:?} -> {}", i, op, short(&r0), twin, short(&r1)));
            }
            let tcl = op_tclass(&before, op);
            stepinfo = format!("{}({})", op.kind(), tcl);
            // confinement: every path the altroot handed to the underlying filesystem lies in P
            for r in log.iter().filter(|r| r.node == rec_node) {
                cx.out.count("probe.c07.underlying_calls_recorded");
                for pth in std::iter::once(&r.path).chain(r.path2.iter()) {
                    // operating on P itself needs existence/type of P's ancestors (parent check of
                    // the path layer): a non-mutating exists/metadata there reads no content
                    let ancestor_probe = !r.mutating && matches!(r.method, "exists" | "metadata") && (is_under(&pfx, pth) || (pth.is_empty() && !pfx.is_empty()));
                    if ancestor_probe {
                        continue;
                    }
                    if !(pth == &pfx || is_under(pth, &pfx)) {
                        let key = format!("C07|{}|{}|{}|escape:{}", cx.shape, op.kind(), tcl, r.method);
                        let d = format!("step {} {:?}: the altroot at '{}' called {}('{}') on the underlying filesystem", i, op, pfx, r.method, pth);
                        cx.violate(i, key, d);
                        break;
                    }
                }
            }
            if !cx.out.violations.is_empty() {
                break;
            }
            if invalid {
                if !matches!(&r0, Res::Err(e) if e.class == ErrClass::InvalidPath) {
                    let key = format!("C07|{}|{}|invalid-join-accepted", cx.shape, op.kind());
                    cx.violate(i, key, format!("step {} {:?}: invalid join argument gave {}", i, op, short(&r0)));
                    break;
                }
            } else if let Some((k, d)) = pair_verdict(&r0, &r1, &pfx, false) {
                let key = format!("C07|{}|{}|{}|{}", cx.shape, op.kind(), tcl, k);
                cx.violate(i, key, format!("step {} {:?} through the altroot vs {:?} on the underlying filesystem: {}", i, op, twin, d));
                break;
            } else if let (Want::Err(classes), Res::Err(a), Res::Err(b)) = (&want, &r0, &r1) {
                // error classes are compared where the contracts name one
                if !classes.is_empty() && a.class != b.class {
                    let key = format!("C07|{}|{}|{}|class:{:?}-vs-{:?}", cx.shape, op.kind(), tcl, a.class, b.class);
                    cx.violate(i, key, format!("step {} {:?}: error classes differ where {:?} is demanded: '{}' vs '{}'", i, op, classes, a.display, b.display));
                    break;
                }
            }
            if r0.is_panic() || r1.is_panic() {
                break;
            }
        }
        // U (under the altroot) and U' (twin) must be identical everywhere, inside and outside P
        let su = cx.built[0].ctl.quiet(|| snapshot(&u_root, &uni_u, false, false));
        let sv = cx.built[1].ctl.quiet(|| snapshot(&cx.built[1].root, &uni_u, false, false));
        let sa = cx.snap(0, false, false);
        cx.log(su.hash());
        cx.log(sa.hash());
        cx.out.steps += 1;
        cx.out.state_hashes.push(cx.world.m[0].state_hash());
        let mut bad: Option<(String, String, String)> = None;
        for (p, e0) in &su.e {
            match sv.e.get(p) {
                Some(e1) => {
                    if let Some((field, d)) = entry_equiv(e0, e1, "") {
                        let wher = if p == &pfx || is_under(p, &pfx) { "inside" } else { "outside" };
                        bad = Some((format!("underlying-differs-{}|{}", wher, field), p.clone(), d));
                        break;
                    }
                }
                None => {
                    bad = Some(("underlying-differs|reachability".into(), p.clone(), "only reachable under the altroot's filesystem".into()));
                    break;
                }
            }
        }
        if bad.is_none() {
            // the altroot's own view is exactly the subtree at P
            for (q, ea) in &sa.e {
                let up = format!("{}{}", pfx, q);
                if let Some(eu) = su.e.get(&up) {
                    if let Some((field, d)) = entry_equiv(ea, eu, &pfx) {
                        bad = Some((format!("view-differs|{}", field), q.clone(), d));
                        break;
                    }
                }
            }
        }
        if bad.is_none() {
            for b in &cx.built {
                if let Some(d) = b.check_phys_outside() {
                    bad = Some(("physical-root-escape".into(), "<disk>".into(), d));
                    break;
                }
            }
        }
        if let Some((k, p, d)) = bad {
            let key = format!("C07|{}|after={}|{}", cx.shape, stepinfo, k);
            cx.violate(i, key, format!("after step {}: '{}': {}", i, p, d));
            break;
        }
    }
    cx.out.signature = sig;
    cx.out.nontrivial = succ_mut >= 3 && demanded_fail >= 1;
    cx.finish()
}
