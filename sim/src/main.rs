//! vsim: deterministic simulation with fault injection for rust-vfs (see /verif/DESIGN.md).
#![allow(dead_code, unused_imports)]

mod asyncsim;
mod conc;
mod mon_async;
mod gen;
mod harness;
mod model;
mod mon_bytes;
mod mon_err;
mod mon_fault;
mod mon_time;
mod mon_invariant;
mod mon_twin;
mod mon_overlay;
mod mon_panic;
mod observe;
mod ops;
mod props;
mod rng;
mod seq;
mod simfs;
mod stack;
mod types;

use harness::say;

fn arg_val(args: &[String], name: &str) -> Option<String> {
    args.iter().position(|a| a == name).and_then(|i| args.get(i + 1).cloned())
}

fn main() {
    let args: Vec<String> = std::env::args().skip(1).collect();
    // panics inside the library are caught and judged; keep the default hook quiet
    if std::env::var("VSIM_PANIC_TRACE").is_err() {
        std::panic::set_hook(Box::new(|_| {}));
    }
    harness::silence_library_stdout();
    let code = match args.first().map(|s| s.as_str()) {
        Some("check") => {
            let prop = args.get(1).cloned().unwrap_or_default();
            let tier = arg_val(&args, "--tier").or_else(|| std::env::var("VERIF_TIER").ok()).unwrap_or_else(|| "quick".into());
            let runs = arg_val(&args, "--runs").and_then(|s| s.parse().ok());
            let secs = arg_val(&args, "--max-seconds").and_then(|s| s.parse().ok());
            if !props::ALL_PROPS.contains(&prop.as_str()) {
                say(&format!("HARNESS-ERROR unknown property {}", prop));
                2
            } else {
                harness::check(&prop, &tier, runs, secs)
            }
        }
        Some("replay") => {
            let path = args.get(1).cloned().unwrap_or_default();
            harness::replay(&path, args.iter().any(|a| a == "--quiet"), args.iter().any(|a| a == "--trace"))
        }
        Some("run") => {
            // debug: one run by index
            let prop = args.get(1).cloned().unwrap_or_default();
            let idx: u64 = args.get(2).and_then(|s| s.parse().ok()).unwrap_or(0);
            let seed: u64 = std::env::var("VERIF_SEED").ok().and_then(|s| s.parse().ok()).unwrap_or(harness::DEFAULT_SEED);
            let cfg = props::gen_any(&prop, props::run_seed(seed, &prop, idx));
            if args.iter().any(|a| a == "--cfg") {
                say(&serde_json::to_string_pretty(&cfg).unwrap());
            }
            let out = props::run_any(&prop, &cfg, true);
            for l in &out.trace {
                say(l);
            }
            for v in &out.violations {
                say(&format!("VIOLATION-KEY {}\n  {}", v.key, v.detail));
            }
            if let Some(e) = &out.harness_error {
                say(&format!("HARNESS-ERROR {}", e));
            }
            0
        }
        Some("selfcheck") => {
            let n = arg_val(&args, "--n").and_then(|s| s.parse().ok()).unwrap_or(2000);
            let list: Vec<String> = match arg_val(&args, "--props") {
                Some(s) => s.split(',').map(|x| x.to_string()).collect(),
                None => props::ALL_PROPS.iter().map(|s| s.to_string()).collect(),
            };
            harness::selfcheck_determinism(&list, n)
        }
        _ => {
            say("usage: vsim check <Cxx> [--tier quick|thorough] [--runs N] [--max-seconds S] | replay <file> [--trace] | run <Cxx> <index> [--cfg] | selfcheck [--props a,b] [--n N]");
            2
        }
    };
    std::process::exit(code);
}
