//! C04 (files return exactly the bytes written) uses the contract loop with a byte-heavy generator
//! (see props.rs). C14 (handles obey Read/Write/Seek) has its own loop: every handle call is
//! compared with `std::io::Cursor` call by call, with feedback of the real byte counts.

use crate::model::*;
use crate::ops::{drain, resolve};
use crate::seq::*;
use crate::types::*;
use std::collections::BTreeMap;
use std::io::{Cursor, Read, Seek, Write};

enum Oracle {
    R { cur: Cursor<Vec<u8>> },
    W { cur: Cursor<Vec<u8>>, path: String },
}

pub fn run_c14(cfg: &RunCfg, trace: bool) -> RunOut {
    let mut cx = match SeqCtx::new(cfg, trace) {
        Ok(c) => c,
        Err(e) => return RunOut { harness_error: Some(e), ..Default::default() },
    };
    cx.exec.single_write = true;
    let emb = matches!(cfg.specs[0], crate::stack::Spec::Emb);
    let _ = emb; // the fixture is the initial content of Spec::Emb (Spec::view)
    let mut oracle: BTreeMap<u8, Oracle> = BTreeMap::new();
    let mut sig = crate::rng::hash_str(&cx.shape);
    let mut calls = 0;
    let mut interesting = 0;
    let shape = cx.shape.clone();
    macro_rules! fail {
        ($i:expr, $op:expr, $k:expr, $d:expr) => {{
            let key = format!("C14|{}|{}|{}", shape, $op.kind(), $k);
            cx.violate($i, key, format!("step {} {:?}: {}", $i, $op, $d));
            break;
        }};
    }
    let root = cx.built[0].root.clone();
    let ctl = cx.built[0].ctl.clone();
    let published = |p: &str| -> Result<Vec<u8>, String> {
        ctl.quiet(|| {
            let vp = resolve(&root, p).map_err(|e| e.to_string())?;
            let mut h = vp.open_file().map_err(|e| e.to_string())?;
            drain(&mut *h, 8192).map_err(|e| e.to_string())
        })
    };
    for (idx, op) in cfg.ops.iter().enumerate() {
        let i = idx + 1;
        cx.out.steps += 1;
        let got = cx.exec.exec(op);
        let k = format!("op.{}.{}", op.kind(), got.class());
        cx.out.count(&k);
        sig = crate::rng::mix(sig, crate::rng::hash_str(&k));
        cx.log(res_hash(&got));
        if cx.trace_on {
            cx.trace(format!("step {} {:?} -> {}", i, op, short(&got)));
        }
        if let Res::Panic(m) = &got {
            fail!(i, op, "panic", format!("panicked: {}", m));
        }
        match op {
            Op::Write { .. } => {
                // setup: plain contract op
                let want = cx.world.apply(op);
                if judge(&want, &got).is_some() {
                    break; // not C14's business
                }
            }
            Op::OpenRead(p, slot) => {
                let c = canon(&p.s).unwrap_or_default();
                match (cx.world.m[0].file(&c), &got) {
                    (Some(b), Res::Ok(_)) => {
                        oracle.insert(*slot, Oracle::R { cur: Cursor::new(b.as_ref().clone()) });
                    }
                    (Some(_), other) => fail!(i, op, "open-existing-file-failed", format!("open_file on an existing file failed: {}", short(other))),
                    (None, _) => break,
                }
            }
            Op::OpenWrite { p, append, slot } => {
                let c = canon(&p.s).unwrap_or_default();
                let want = cx.world.apply(op);
                if judge(&want, &got).is_some() {
                    break;
                }
                if got.is_ok() {
                    let ws = cx.world.w.get(slot).unwrap();
                    let _ = append;
                    oracle.insert(*slot, Oracle::W { cur: ws.cur.clone(), path: c });
                }
            }
            Op::HRead(slot, n) => {
                if let Some(Oracle::R { cur }) = oracle.get_mut(slot) {
                    calls += 1;
                    let pos = cur.position().min(cur.get_ref().len() as u64) as usize;
                    let remaining: Vec<u8> = cur.get_ref()[pos..].to_vec();
                    if let Some(k) = read_exact_len(*n) {
                        // read_exact: Ok with exactly the next k bytes iff k bytes remain; after a
                        // failure the executor has moved the handle to the end
                        match &got {
                            Res::Ok(Out::Read(b)) => {
                                if remaining.len() < k || b[..] != remaining[..k] {
                                    fail!(i, op, "read_exact-wrong-bytes", format!("read_exact({}) returned Ok with {} bytes, {} remain at position {}", k, b.len(), remaining.len(), cur.position()));
                                }
                                let np = cur.position() + k as u64;
                                cur.set_position(np);
                                if k == 0 && cur.position() > cur.get_ref().len() as u64 {
                                    cx.out.count("probe.c14.read_exact_empty_past_end");
                                }
                            }
                            Res::Err(_) if remaining.len() < k => {
                                let l = cur.get_ref().len() as u64;
                                cur.set_position(l);
                                cx.out.count("probe.c14.read_exact_unexpected_eof");
                            }
                            other => fail!(i, op, "read_exact-failed", format!("read_exact({}) with {} bytes remaining: {}", k, remaining.len(), short(other))),
                        }
                        continue;
                    }
                    match &got {
                        Res::Ok(Out::Read(b)) => {
                            if b.len() > *n {
                                fail!(i, op, "read-more-than-buffer", format!("returned {} bytes for a buffer of {}", b.len(), n));
                            }
                            if b.len() > remaining.len() || remaining[..b.len()] != b[..] {
                                fail!(i, op, "read-wrong-bytes", format!("returned bytes are not the next bytes of the file (position {}, got {} bytes, {} remain)", cur.position(), b.len(), remaining.len()));
                            }
                            if *n == READ_TO_END && b.len() != remaining.len() {
                                fail!(i, op, "read_to_end-short", format!("read_to_end returned {} bytes although {} remain at position {}", b.len(), remaining.len(), cur.position()));
                            }
                            if b.is_empty() && *n > 0 && !remaining.is_empty() {
                                fail!(i, op, "read-zero-before-eof", format!("returned 0 bytes although {} bytes remain at position {}", remaining.len(), cur.position()));
                            }
                            if cur.position() > cur.get_ref().len() as u64 {
                                interesting += 1;
                                cx.out.count("probe.c14.read_past_end");
                            }
                            if *n == 0 {
                                cx.out.count("probe.c14.zero_length_read");
                            }
                            let np = cur.position() + b.len() as u64;
                            cur.set_position(np);
                        }
                        other => fail!(i, op, "read-failed", format!("read failed: {}", short(other))),
                    }
                }
            }
            Op::HSeek(slot, w, off) => {
                let want = match oracle.get_mut(slot) {
                    Some(Oracle::R { cur }) | Some(Oracle::W { cur, .. }) => {
                        let before = cur.position();
                        let r = cur.seek(seek_from(*w, *off));
                        Some((before, r.ok()))
                    }
                    None => None,
                };
                if let Some((before, want)) = want {
                    calls += 1;
                    // keep the model's own write-handle cursor in step
                    if let Some(ws) = cx.world.w.get_mut(slot) {
                        let _ = ws.cur.seek(seek_from(*w, *off));
                    }
                    match (&want, &got) {
                        (Some(p), Res::Ok(Out::Pos(q))) if p == q => {
                            if *p > 0 {
                                interesting += 1;
                            }
                        }
                        (None, Res::Err(_)) => {
                            cx.out.count("probe.c14.seek_before_start_rejected");
                            interesting += 1;
                        }
                        (w2, g) => fail!(i, op, format!("seek:want={}|got={}", if w2.is_some() { "Ok" } else { "Err" }, g.class()), format!("seek from position {}: Cursor gives {:?}, handle gives {}", before, w2, short(g))),
                    }
                }
            }
            Op::HWrite(slot, pl) => {
                if let Some(Oracle::W { cur, .. }) = oracle.get_mut(slot) {
                    calls += 1;
                    let bytes = pl.bytes();
                    match &got {
                        Res::Ok(Out::Num(k)) => {
                            if *k > bytes.len() || (*k == 0 && !bytes.is_empty()) {
                                fail!(i, op, "write-count", format!("write of {} bytes returned {}", bytes.len(), k));
                            }
                            if *k > 0 {
                                if cur.position() > cur.get_ref().len() as u64 {
                                    cx.out.count("probe.c14.write_past_end_zero_fill");
                                }
                                cur.write_all(&bytes[..*k]).unwrap();
                                if let Some(ws) = cx.world.w.get_mut(slot) {
                                    ws.cur.write_all(&bytes[..*k]).unwrap();
                                    ws.dirty = true;
                                }
                            }
                        }
                        other => fail!(i, op, "write-failed", format!("write failed: {}", short(other))),
                    }
                }
            }
            Op::HFlush(slot) | Op::HDrop(slot) => {
                let is_drop = matches!(op, Op::HDrop(_));
                let info = match oracle.get(slot) {
                    Some(Oracle::W { cur, path }) => Some((cur.get_ref().clone(), path.clone())),
                    _ => None,
                };
                if let Some((buf, path)) = info {
                    calls += 1;
                    if !got.is_ok() {
                        fail!(i, op, "flush-failed", format!("{}", short(&got)));
                    }
                    let _ = cx.world.apply(op);
                    match published(&path) {
                        Ok(b) if b == buf => {
                            cx.out.count("probe.c14.publish_checked");
                        }
                        Ok(b) => fail!(i, op, if is_drop { "drop-publishes-wrong-bytes" } else { "flush-publishes-wrong-bytes" }, format!("'{}' holds {} bytes (hash {:x}) after {}, the handle's buffer has {} bytes (hash {:x}); first difference at {:?}", path, b.len(), crate::rng::hash_bytes(&b), op.kind(), buf.len(), crate::rng::hash_bytes(&buf), b.iter().zip(buf.iter()).position(|(x, y)| x != y))),
                        Err(e) => fail!(i, op, "published-unreadable", e),
                    }
                }
                if is_drop {
                    oracle.remove(slot);
                }
            }
            _ => {}
        }
    }
    cx.out.signature = sig;
    cx.out.nontrivial = calls >= 3 && interesting >= 1;
    cx.out.state_hashes.push(sig);
    cx.finish()
}
