//! Backend stack specification and builder: `FS := Mem | Phys | Emb | Alt(FS, P) | Ovl([FS])`,
//! every FileSystem node wrapped in a `SimFS`.

use crate::model::{Model, Node};
use crate::simfs::{Ctl, SimFS};
use crate::types::Payload;
use serde::{Deserialize, Serialize};
use std::io::Write;
use std::path::PathBuf;
use std::sync::atomic::{AtomicU64, Ordering};
use std::sync::Arc;
use vfs::{AltrootFS, EmbeddedFS, MemoryFS, OverlayFS, PhysicalFS, VfsPath};

#[derive(rust_embed::RustEmbed, Debug)]
#[folder = "../fixtures/embedded/"]
pub struct Fixture;

#[derive(Clone, Debug, Serialize, Deserialize, PartialEq, Eq)]
pub struct Pre {
    pub path: String,
    pub file: Option<Payload>,
}

#[derive(Clone, Debug, Serialize, Deserialize, PartialEq, Eq)]
pub enum Spec {
    Mem { pre: Vec<Pre> },
    Phys { pre: Vec<Pre> },
    Emb,
    Alt { inner: Box<Spec>, p: String },
    Ovl { layers: Vec<Spec> },
    /// overlay whose layers are sub-directories `dirs[i]` of ONE underlying filesystem instance
    OvlSub { base: Box<Spec>, dirs: Vec<String> },
}

impl Spec {
    /// (ids of every node inside a non-first overlay layer, (shared node id, directory) of every
    /// non-first layer that is a sub-directory of a shared instance) - node ids are assigned in
    /// pre-order by both the sync and the async stack builder
    pub fn lower_info(&self) -> (std::collections::BTreeSet<u16>, Vec<(u16, String)>) {
        fn rec(s: &Spec, next: &mut u16, lower: bool, nodes: &mut std::collections::BTreeSet<u16>, pfx: &mut Vec<(u16, String)>) {
            let id = *next;
            *next += 1;
            if lower {
                nodes.insert(id);
            }
            match s {
                Spec::Mem { .. } | Spec::Phys { .. } | Spec::Emb => {}
                Spec::Alt { inner, .. } => rec(inner, next, lower, nodes, pfx),
                Spec::Ovl { layers } => {
                    for (k, l) in layers.iter().enumerate() {
                        rec(l, next, lower || k >= 1, nodes, pfx);
                    }
                }
                Spec::OvlSub { base, dirs } => {
                    let base_id = *next;
                    rec(base, next, lower, nodes, pfx);
                    for d in dirs.iter().skip(1) {
                        pfx.push((base_id, d.clone()));
                    }
                }
            }
        }
        let mut nodes = Default::default();
        let mut pfx = vec![];
        let mut next = 0u16;
        rec(self, &mut next, false, &mut nodes, &mut pfx);
        (nodes, pfx)
    }
    pub fn shape(&self) -> String {
        match self {
            Spec::Mem { .. } => "mem".into(),
            Spec::Phys { .. } => "phys".into(),
            Spec::Emb => "emb".into(),
            Spec::Alt { inner, p } => {
                format!("alt{}({})", p.matches('/').count(), inner.shape())
            }
            Spec::Ovl { layers } => {
                format!("ovl({})", layers.iter().map(|l| l.shape()).collect::<Vec<_>>().join(","))
            }
            Spec::OvlSub { base, dirs } => format!("ovlsub{}({})", dirs.len(), base.shape()),
        }
    }
    pub fn has_phys(&self) -> bool {
        match self {
            Spec::Phys { .. } => true,
            Spec::Mem { .. } | Spec::Emb => false,
            Spec::Alt { inner, .. } => inner.has_phys(),
            Spec::Ovl { layers } => layers.iter().any(|l| l.has_phys()),
            Spec::OvlSub { base, .. } => base.has_phys(),
        }
    }
    pub fn has_ovl(&self) -> bool {
        match self {
            Spec::Ovl { .. } | Spec::OvlSub { .. } => true,
            Spec::Mem { .. } | Spec::Emb | Spec::Phys { .. } => false,
            Spec::Alt { inner, .. } => inner.has_ovl(),
        }
    }
    pub fn node_count(&self) -> usize {
        match self {
            Spec::Mem { .. } | Spec::Phys { .. } | Spec::Emb => 1,
            Spec::Alt { inner, .. } => 1 + inner.node_count(),
            Spec::Ovl { layers } => 1 + layers.iter().map(|l| l.node_count()).sum::<usize>(),
            Spec::OvlSub { base, .. } => 1 + base.node_count(),
        }
    }
    pub fn pre_total(&self) -> usize {
        match self {
            Spec::Mem { pre } | Spec::Phys { pre } => pre.len(),
            Spec::Emb => 0,
            Spec::Alt { inner, .. } => inner.pre_total(),
            Spec::Ovl { layers } => layers.iter().map(|l| l.pre_total()).sum(),
            Spec::OvlSub { base, .. } => base.pre_total(),
        }
    }
    /// The top-level view this stack presents initially (union semantics for overlays).
    pub fn has_emb(&self) -> bool {
        match self {
            Spec::Emb => true,
            Spec::Mem { .. } | Spec::Phys { .. } => false,
            Spec::Alt { inner, .. } => inner.has_emb(),
            Spec::Ovl { layers } => layers.iter().any(|l| l.has_emb()),
            Spec::OvlSub { base, .. } => base.has_emb(),
        }
    }

    /// initial contents of every leaf are a tree: no entry below a file, no path with two types
    pub fn self_consistent(&self) -> bool {
        match self {
            Spec::Emb => true,
            Spec::Mem { pre } | Spec::Phys { pre } => {
                let mut m: std::collections::BTreeMap<&str, bool> = Default::default();
                for e in pre {
                    let is_file = e.file.is_some();
                    if let Some(prev) = m.get(e.path.as_str()) {
                        if *prev != is_file {
                            return false;
                        }
                    }
                    m.insert(e.path.as_str(), is_file);
                }
                for (p, _) in m.iter() {
                    for a in crate::model::ancestors(p) {
                        if m.get(a.as_str()) == Some(&true) {
                            return false;
                        }
                    }
                }
                true
            }
            Spec::Alt { inner, p } => {
                if !inner.self_consistent() {
                    return false;
                }
                // the altroot directory itself (and its ancestors) must not be files
                let iv = inner.view();
                let mut chain = crate::model::ancestors(p);
                chain.push(p.clone());
                !chain.iter().any(|a| iv.is_file(a))
            }
            Spec::Ovl { layers } => layers.iter().all(|l| l.self_consistent()),
            Spec::OvlSub { base, dirs } => base.self_consistent() && !dirs.iter().any(|d| base.view().is_file(d)),
        }
    }

    /// some overlay of the stack holds a directory in one layer and a same-named file in a deeper one
    pub fn has_dir_over_file(&self) -> bool {
        match self {
            Spec::Mem { .. } | Spec::Phys { .. } | Spec::Emb => false,
            Spec::Alt { inner, .. } => inner.has_dir_over_file(),
            Spec::OvlSub { base, .. } => base.has_dir_over_file(),
            Spec::Ovl { layers } => {
                if layers.iter().any(|l| l.has_dir_over_file()) {
                    return true;
                }
                let views: Vec<Model> = layers.iter().map(|l| l.view()).collect();
                for i in 0..views.len() {
                    for (k, v) in &views[i].t {
                        if matches!(v, Node::Dir) && !k.is_empty() && views[i + 1..].iter().any(|w| matches!(w.t.get(k), Some(Node::File(_)))) {
                            return true;
                        }
                    }
                }
                false
            }
        }
    }

    pub fn view(&self) -> Model {
        match self {
            Spec::Mem { pre } | Spec::Phys { pre } => {
                let mut m = Model::new();
                for e in pre {
                    match &e.file {
                        None => m.put(&e.path, Node::Dir),
                        Some(pl) => m.put(&e.path, Node::File(Arc::new(pl.bytes()))),
                    }
                }
                m
            }
            Spec::Emb => fixture_model(),
            Spec::Alt { inner, p } => {
                let iv = inner.view();
                let mut m = Model::new();
                for (k, v) in &iv.t {
                    if crate::model::is_under(k, p) {
                        m.t.insert(k[p.len()..].to_string(), v.clone());
                    }
                }
                m
            }
            Spec::Ovl { layers } => {
                let mut m = Model::new();
                for l in layers {
                    let lv = l.view();
                    for (k, v) in lv.t {
                        m.t.entry(k).or_insert(v);
                    }
                }
                m
            }
            Spec::OvlSub { base, dirs } => {
                let bv = base.view();
                let mut m = Model::new();
                for d in dirs {
                    for (k, v) in &bv.t {
                        if crate::model::is_under(k, d) {
                            m.t.entry(k[d.len()..].to_string()).or_insert(v.clone());
                        }
                    }
                }
                m
            }
        }
    }
}

/// the embedded fixture folder as a model (files and the directories implied by their paths)
pub fn fixture_model() -> Model {
    let mut m = Model::new();
    for name in Fixture::iter() {
        if let Some(f) = Fixture::get(&name) {
            m.put(&format!("/{}", name), Node::File(Arc::new(f.data.to_vec())));
        }
    }
    m
}

#[derive(Clone, Debug)]
pub struct NodeInfo {
    pub id: u16,
    pub kind: &'static str,
    pub root: VfsPath,
    pub parent: Option<u16>,
    /// index within the parent overlay's layer list
    pub layer_index: Option<usize>,
    pub phys_dir: Option<PathBuf>,
    pub alt_p: Option<String>,
    /// for `ovlsub`: the layer directories inside the (single) underlying filesystem
    pub sub_dirs: Vec<String>,
}

pub struct Built {
    pub root: VfsPath,
    pub nodes: Vec<NodeInfo>,
    pub ctl: Arc<Ctl>,
    pub base: Option<PathBuf>,
}

impl Built {
    /// restart: construct every adapter anew over the same underlying filesystems
    pub fn reopen(&mut self, spec: &Spec) -> Result<(), String> {
        let old = std::mem::take(&mut self.nodes);
        let mut b = Builder { ctl: self.ctl.clone(), nodes: vec![], base: self.base.clone(), reuse: Some(old) };
        // (re-creating altroot / layer directories is the builder's doing, not an observer's)
        let watch = self.ctl.watch_quiet.swap(false, Ordering::SeqCst);
        let built = std::panic::catch_unwind(std::panic::AssertUnwindSafe(|| b.build(spec, None, None)));
        self.ctl.watch_quiet.store(watch, Ordering::SeqCst);
        let root = match built {
            Ok(r) => r?,
            Err(_) => return Err("LIBRARY-PANIC while re-creating the adapters of the stack over the same layers".to_string()),
        };
        self.nodes = b.nodes;
        self.root = root;
        Ok(())
    }
}

impl Drop for Built {
    fn drop(&mut self) {
        if let Some(b) = &self.base {
            let _ = std::fs::remove_dir_all(b);
        }
    }
}

static COUNTER: AtomicU64 = AtomicU64::new(0);

pub fn scratch_base() -> PathBuf {
    let shm = PathBuf::from("/dev/shm");
    let root = if shm.is_dir() { shm } else { PathBuf::from("/verif/.scratch") };
    let n = COUNTER.fetch_add(1, Ordering::SeqCst);
    root.join(format!("vsim-{}-{}", std::process::id(), n))
}

/// How the directory of a physical filesystem is named and spelled: mostly plain, sometimes with
/// a name that is not valid UTF-8, sometimes with a `..` component in the spelling handed to
/// PhysicalFS::new. Returns (directory name, spelled through "via/..").
pub fn phys_root_variant(order_seed: u64, id: u16) -> (std::ffi::OsString, bool) {
    use std::os::unix::ffi::OsStringExt;
    match crate::rng::mix(order_seed, 0x9007 + id as u64) % 10 {
        0 => (std::ffi::OsString::from_vec(b"ro\xFFot".to_vec()), false),
        1 => (std::ffi::OsString::from("root"), true),
        _ => (std::ffi::OsString::from("root"), false),
    }
}

pub const SENTINELS: [(&str, &[u8]); 3] = [
    ("outside.txt", b"SENTINEL-OUTSIDE-0f3a"),
    ("roo", b"SENTINEL-PREFIX-77c1"),
    ("root.d", b"SENTINEL-SUFFIX-5be9"),
];

impl Built {
    pub fn node(&self, id: u16) -> &NodeInfo {
        &self.nodes[id as usize]
    }
    /// ids of all nodes in the subtree below (and including) `id`
    pub fn subtree(&self, id: u16) -> Vec<u16> {
        let mut out = vec![id];
        let mut i = 0;
        while i < out.len() {
            let cur = out[i];
            for n in &self.nodes {
                if n.parent == Some(cur) {
                    out.push(n.id);
                }
            }
            i += 1;
        }
        out
    }
    /// node ids of lower layers (index >= 1) of every overlay in the stack, with their subtrees
    pub fn lower_layer_nodes(&self) -> Vec<u16> {
        let mut v = vec![];
        for n in &self.nodes {
            if let (Some(par), Some(idx)) = (n.parent, n.layer_index) {
                if self.nodes[par as usize].kind == "ovl" && idx >= 1 {
                    v.extend(self.subtree(n.id));
                }
            }
        }
        v.sort();
        v.dedup();
        v
    }
    /// (node id of the shared underlying filesystem, directory prefix) of every lower layer that
    /// is a sub-directory of a filesystem instance shared with the upper layer
    pub fn lower_layer_prefixes(&self) -> Vec<(u16, String)> {
        let mut v = vec![];
        for n in &self.nodes {
            if n.kind == "ovlsub" {
                if let Some(base) = self.nodes.iter().find(|b| b.parent == Some(n.id)) {
                    for d in n.sub_dirs.iter().skip(1) {
                        v.push((base.id, d.clone()));
                    }
                }
            }
        }
        v
    }
    /// does this recorded call touch a lower layer of some overlay of the stack?
    pub fn touches_lower(&self, node: u16, path: &str, path2: Option<&str>) -> bool {
        if self.lower_layer_nodes().contains(&node) {
            return true;
        }
        for (id, pfx) in self.lower_layer_prefixes() {
            if id == node {
                // `path2` given = a two-path call: the caller passes only the mutated side(s)
                for p in std::iter::once(path).chain(path2.into_iter()) {
                    if p == pfx || crate::model::is_under(p, &pfx) {
                        return true;
                    }
                }
            }
        }
        false
    }
    /// the paths a recorded call mutates: copy_file writes only its destination
    pub fn mutated_paths<'a>(method: &str, path: &'a str, path2: Option<&'a str>) -> (&'a str, Option<&'a str>) {
        match (method, path2) {
            ("copy_file", Some(d)) => (d, None),
            _ => (path, path2),
        }
    }
    pub fn leaf_nodes(&self) -> Vec<u16> {
        self.nodes.iter().filter(|n| matches!(n.kind, "mem" | "phys" | "emb")).map(|n| n.id).collect()
    }
    /// verify sentinels beside every physical root are untouched; returns description of damage
    pub fn check_phys_outside(&self) -> Option<String> {
        for n in &self.nodes {
            if let Some(d) = &n.phys_dir {
                let outer = d.parent().unwrap();
                let mut names: Vec<String> = match std::fs::read_dir(outer) {
                    Ok(rd) => rd.filter_map(|e| e.ok()).map(|e| e.file_name().to_string_lossy().to_string()).collect(),
                    Err(e) => return Some(format!("outer dir unreadable: {}", e)),
                };
                names.sort();
                let mut want: Vec<String> = SENTINELS.iter().map(|s| s.0.to_string()).collect();
                want.push(d.file_name().map(|f| f.to_string_lossy().to_string()).unwrap_or_default());
                if outer.join("via").is_dir() {
                    want.push("via".into());
                }
                want.sort();
                if names != want {
                    return Some(format!("entries beside the physical root changed: {:?}", names));
                }
                for (name, bytes) in SENTINELS.iter() {
                    match std::fs::read(outer.join(name)) {
                        Ok(b) if b == *bytes => {}
                        other => return Some(format!("sentinel {} changed: {:?}", name, other.map(|b| b.len()))),
                    }
                }
            }
        }
        None
    }
}

struct Builder {
    ctl: Arc<Ctl>,
    nodes: Vec<NodeInfo>,
    base: Option<PathBuf>,
    /// restart: the nodes of the previous incarnation - leaves are taken over (the same MemoryFS /
    /// EmbeddedFS object, a new PhysicalFS over the same directory), adapters are built anew
    reuse: Option<Vec<NodeInfo>>,
}

fn apply_pre(root: &VfsPath, pre: &[Pre]) -> Result<(), String> {
    for e in pre {
        let p = root.join(&e.path[1..]).map_err(|x| x.to_string())?;
        match &e.file {
            None => p.create_dir_all().map_err(|x| format!("LIBRARY-BUILD-ERROR pre {}: {}", e.path, x))?,
            Some(pl) => {
                p.parent().create_dir_all().map_err(|x| format!("LIBRARY-BUILD-ERROR pre {}: {}", e.path, x))?;
                let mut f = p.create_file().map_err(|x| format!("LIBRARY-BUILD-ERROR pre {}: {}", e.path, x))?;
                f.write_all(&pl.bytes()).map_err(|x| x.to_string())?;
            }
        }
    }
    Ok(())
}

impl Builder {
    fn build(&mut self, spec: &Spec, parent: Option<u16>, layer_index: Option<usize>) -> Result<VfsPath, String> {
        let id = self.nodes.len() as u16;
        // reserve slot (children get larger ids)
        self.nodes.push(NodeInfo {
            id,
            kind: "",
            root: VfsPath::new(MemoryFS::new()),
            parent,
            layer_index,
            phys_dir: None,
            alt_p: None,
            sub_dirs: vec![],
        });
        let mut sub_dirs: Vec<String> = vec![];
        let (kind, root, phys_dir, alt_p) = match spec {
            Spec::Mem { .. } | Spec::Emb if self.reuse.is_some() => {
                let old = &self.reuse.as_ref().unwrap()[id as usize];
                (old.kind, old.root.clone(), None, None)
            }
            Spec::Phys { .. } if self.reuse.is_some() => {
                let dir = self.reuse.as_ref().unwrap()[id as usize].phys_dir.clone().ok_or("restart: physical node without directory")?;
                let (name, via) = phys_root_variant(self.ctl.order_seed.load(Ordering::Relaxed), id);
                let spelled = if via { dir.parent().unwrap().join("via").join("..").join(&name) } else { dir.clone() };
                let r = VfsPath::new(SimFS::new(PhysicalFS::new(&spelled), id, self.ctl.clone()));
                ("phys", r, Some(dir), None)
            }
            Spec::Mem { pre } => {
                let r = VfsPath::new(SimFS::new(MemoryFS::new(), id, self.ctl.clone()));
                self.ctl.quiet(|| apply_pre(&r, pre))?;
                ("mem", r, None, None)
            }
            Spec::Phys { pre } => {
                if self.base.is_none() {
                    let b = scratch_base();
                    std::fs::create_dir_all(&b).map_err(|e| e.to_string())?;
                    self.base = Some(b);
                }
                let outer = self.base.as_ref().unwrap().join(format!("n{}", id));
                let (name, via) = phys_root_variant(self.ctl.order_seed.load(Ordering::Relaxed), id);
                let dir = outer.join(&name);
                std::fs::create_dir_all(&dir).map_err(|e| e.to_string())?;
                for (name, bytes) in SENTINELS.iter() {
                    std::fs::write(outer.join(name), bytes).map_err(|e| e.to_string())?;
                }
                let spelled = if via {
                    std::fs::create_dir_all(outer.join("via")).map_err(|e| e.to_string())?;
                    outer.join("via").join("..").join(&name)
                } else {
                    dir.clone()
                };
                let r = VfsPath::new(SimFS::new(PhysicalFS::new(&spelled), id, self.ctl.clone()));
                self.ctl.quiet(|| apply_pre(&r, pre))?;
                ("phys", r, Some(dir), None)
            }
            Spec::Emb => {
                let r = VfsPath::new(SimFS::new(EmbeddedFS::<Fixture>::new(), id, self.ctl.clone()));
                ("emb", r, None, None)
            }
            Spec::Alt { inner, p } => {
                let ir = self.build(inner, Some(id), None)?;
                let sub = if p.is_empty() { ir.clone() } else { ir.join(&p[1..]).map_err(|e| e.to_string())? };
                self.ctl.quiet(|| sub.create_dir_all()).map_err(|e| format!("LIBRARY-BUILD-ERROR altroot dir: {}", e))?;
                let r = VfsPath::new(SimFS::new(AltrootFS::new(sub), id, self.ctl.clone()));
                ("alt", r, None, Some(p.clone()))
            }
            Spec::Ovl { layers } => {
                let mut ls = vec![];
                for (i, l) in layers.iter().enumerate() {
                    ls.push(self.build(l, Some(id), Some(i))?);
                }
                let r = VfsPath::new(SimFS::new(OverlayFS::new(&ls), id, self.ctl.clone()));
                ("ovl", r, None, None)
            }
            Spec::OvlSub { base, dirs } => {
                let br = self.build(base, Some(id), None)?;
                let mut ls = vec![];
                for d in dirs {
                    let sub = br.join(&d[1..]).map_err(|e| e.to_string())?;
                    self.ctl.quiet(|| sub.create_dir_all()).map_err(|e| format!("LIBRARY-BUILD-ERROR layer dir: {}", e))?;
                    ls.push(sub);
                }
                sub_dirs = dirs.clone();
                let r = VfsPath::new(SimFS::new(OverlayFS::new(&ls), id, self.ctl.clone()));
                ("ovlsub", r, None, None)
            }
        };
        let n = &mut self.nodes[id as usize];
        n.kind = kind;
        n.root = root.clone();
        n.phys_dir = phys_dir;
        n.alt_p = alt_p;
        n.sub_dirs = sub_dirs;
        Ok(root)
    }
}

pub fn build(spec: &Spec, order_seed: u64, permute: bool) -> Result<Built, String> {
    let ctl = Ctl::new(order_seed, permute);
    let mut b = Builder { ctl: ctl.clone(), nodes: vec![], base: None, reuse: None };
    // building the stack and its initial contents goes through the public API too: a panic here
    // is a panic of the library on a legitimate call
    let built = std::panic::catch_unwind(std::panic::AssertUnwindSafe(|| b.build(spec, None, None)));
    let built = match built {
        Ok(r) => r,
        Err(p) => {
            let msg = if let Some(s) = p.downcast_ref::<&str>() {
                s.to_string()
            } else if let Some(s) = p.downcast_ref::<String>() {
                s.clone()
            } else {
                "panic".to_string()
            };
            Err(format!("LIBRARY-PANIC while creating the initial contents through the public API: {}", msg))
        }
    };
    let root = match built {
        Ok(r) => r,
        Err(e) => {
            if let Some(base) = &b.base {
                let _ = std::fs::remove_dir_all(base);
            }
            return Err(e);
        }
    };
    Ok(Built { root, nodes: b.nodes, ctl, base: b.base })
}
