//! Overlay-specific monitors: C10 (tombstones / fresh re-creation / marker hygiene) and
//! C08 (lower layers never modified, observers modify nothing).

use crate::model::*;
use crate::observe::{snapshot, Snap};
use crate::seq::*;
use crate::types::*;
use std::collections::BTreeSet;

fn reserved(name: &str) -> bool {
    name == ".whiteout" || name.ends_with("_wo")
}

/// reserved-looking name that the run itself never used as an entry name
fn bookkeeping(name: &str, user_names: &BTreeSet<String>) -> bool {
    reserved(name) && !user_names.contains(name)
}

pub fn run_c10(cfg: &RunCfg, trace: bool) -> RunOut {
    let mut tomb: BTreeSet<String> = BTreeSet::new();
    let mut recreated: BTreeSet<String> = BTreeSet::new();
    let mut tomb_by: std::collections::BTreeMap<String, &'static str> = Default::default();
    let initial = cfg.specs[0].view();
    let mut user_names: BTreeSet<String> = BTreeSet::new();
    for k in initial.t.keys() {
        user_names.extend(k.split('/').map(|c| c.to_string()));
    }
    for op in &cfg.ops {
        for p in op.paths() {
            if let Ok(c) = canon(&p.s) {
                user_names.extend(c.split('/').map(|c| c.to_string()));
            }
        }
    }
    run_loop(cfg, trace, true, &mut |cx, i, op, before, want, got, snaps| {
        let shape = cx.shape.clone();
        if i > 0 {
            if matches!(want, Want::Unspec) {
                return true;
            }
            if judge(want, got).is_some() {
                // contract deviation: C09's business; model and implementation have diverged
                cx.out.count("c10.run_ended_by_contract_deviation");
                return true;
            }
            let m0 = &before.m[0];
            let m1 = &cx.world.m[0];
            // newly removed paths
            for p in m0.t.keys() {
                if !m1.exists(p) {
                    tomb.insert(p.clone());
                    tomb_by.insert(p.clone(), op.kind());
                    recreated.remove(p);
                    cx.out.count(if initial.exists(p) { "probe.c10.removed_initial_entry" } else { "probe.c10.removed_created_entry" });
                }
            }
            for p in m1.t.keys() {
                if tomb.remove(p) {
                    recreated.insert(p.clone());
                    let changed_type = match (initial.t.get(p), m1.t.get(p)) {
                        (Some(Node::Dir), Some(Node::File(_))) | (Some(Node::File(_)), Some(Node::Dir)) => true,
                        _ => false,
                    };
                    cx.out.count(if changed_type { "probe.c10.recreated_with_other_type" } else { "probe.c10.recreated" });
                }
            }
        }
        let s: &Snap = &snaps[0];
        let m = cx.world.m[0].clone();
        // walk items
        let mut walked: BTreeSet<String> = BTreeSet::new();
        if let Some(Ok(items)) = &s.walk {
            for it in items.iter().flatten() {
                walked.insert(it.clone());
            }
        }
        // (a) tombstones stay absent for every observer
        for p in tomb.iter() {
            if let Some(e) = s.e.get(p) {
                let by = tomb_by.get(p).copied().unwrap_or("?");
                let parent_lists = s.e.get(&parent_of(p)).and_then(|pe| pe.list.as_ref().ok()).map(|l| l.iter().any(|c| c == p)).unwrap_or(false);
                let field = if !matches!(e.exists, Ok(false)) {
                    Some("exists")
                } else if e.meta.is_ok() {
                    Some("metadata")
                } else if e.list.is_ok() {
                    Some("read_dir")
                } else if e.bytes.is_ok() {
                    Some("open_file")
                } else if parent_lists {
                    Some("parent-listing")
                } else if walked.contains(p) {
                    Some("walk_dir")
                } else {
                    None
                };
                if let Some(field) = field {
                    let key = format!("C10|{}|tombstone-visible|{}|removed-by={}|after={}", shape, field, by, if i == 0 { "initial" } else { op.kind() });
                    let was = if initial.exists(p) { "initial layer content" } else { "created during the run" };
                    cx.violate(i, key, format!("'{}' ({}; removed by {}) is visible again through {} after step {} {:?}", p, was, by, field, i, op));
                    return true;
                }
            }
        }
        // (b) re-created entries are fresh
        for p in recreated.iter() {
            match (m.t.get(p), s.e.get(p)) {
                (Some(Node::File(b)), Some(e)) => {
                    if !matches!(&e.bytes, Ok(g) if *g == **b) {
                        let key = format!("C10|{}|recreated-file-not-fresh|after={}", shape, op.kind());
                        cx.violate(i, key, format!("re-created file '{}' should hold exactly {} new bytes, read gives {}", p, b.len(), short(&e.bytes.as_ref().map(|g| g.len()))));
                        return true;
                    }
                }
                (Some(Node::Dir), Some(e)) => {
                    let want = m.children(p);
                    let got = e.list.clone().map(|mut l| {
                        l.sort();
                        l
                    });
                    if got.as_ref().ok() != Some(&want) {
                        let key = format!("C10|{}|recreated-dir-not-fresh|after={}", shape, op.kind());
                        cx.violate(i, key, format!("re-created directory '{}' should list {:?}, lists {}", p, want, short(&got)));
                        return true;
                    }
                }
                _ => {}
            }
        }
        // (c) bookkeeping never appears in the overlay's own namespace
        for (d, e) in &s.e {
            if let Ok(l) = &e.list {
                for c in l {
                    if bookkeeping(name_of(c), &user_names) {
                        let key = format!("C10|{}|bookkeeping-visible|listing|dir={}", shape, if d.is_empty() { "root" } else { "sub" });
                        cx.violate(i, key, format!("read_dir('{}') yields the bookkeeping entry '{}' after step {} {:?}", d, c, i, op));
                        return true;
                    }
                }
            }
        }
        for w in &walked {
            if w.split('/').any(|c| bookkeeping(c, &user_names)) {
                let key = format!("C10|{}|bookkeeping-visible|walk", shape);
                cx.violate(i, key, format!("walk_dir(root) yields the bookkeeping entry '{}' after step {} {:?}", w, i, op));
                return true;
            }
        }
        false
    })
}

/// hash of everything C08 demands to stay unchanged in a lower layer: types, bytes,
/// created/modified times (accessed excluded: a layer may update it when it is read)
fn deep_hash(s: &Snap) -> (u64, Vec<String>) {
    let mut h = 0u64;
    let mut lines = vec![];
    for (p, e) in &s.e {
        let ex = matches!(e.exists, Ok(true));
        if !ex {
            continue;
        }
        let (dir, len, cr, mo) = match &e.meta {
            Ok(m) => (m.dir, m.len, m.times[0], m.times[1]),
            Err(_) => (false, u64::MAX, None, None),
        };
        let bh = e.bytes.as_ref().map(|b| crate::rng::hash_bytes(b)).unwrap_or(0);
        let line = format!("{} dir={} len={} created={:?} modified={:?} bytes={:x}", p, dir, len, cr, mo, bh);
        h = crate::rng::mix(h, crate::rng::hash_str(&line));
        lines.push(line);
    }
    (h, lines)
}

pub fn run_c08(cfg: &RunCfg, trace: bool) -> RunOut {
    let mut lower_before: Vec<(u16, u64, Vec<String>)> = vec![];
    let mut started = false;
    run_loop(cfg, trace, false, &mut |cx, i, op, _before, _want, got, _snaps| {
        let shape = cx.shape.clone();
        let b = &cx.built[0];
        let lowers = b.lower_layer_nodes();
        // direct lower layers only for deep snapshots (roots of layers with index >= 1)
        let layer_roots: Vec<u16> = b.nodes.iter().filter(|n| n.layer_index.map(|x| x >= 1).unwrap_or(false) && b.nodes[n.parent.unwrap() as usize].kind == "ovl").map(|n| n.id).collect();
        let uni: BTreeSet<String> = BTreeSet::new();
        let take = |id: u16| -> (u16, u64, Vec<String>) {
            let s = b.ctl.quiet(|| snapshot(&b.node(id).root, &uni, false, false));
            let (h, lines) = deep_hash(&s);
            (id, h, lines)
        };
        // layers that are sub-directories of a shared instance: the part of the shared
        // filesystem below the layer directory
        let take_prefix = |id: u16, pfx: &str| -> (u16, u64, Vec<String>) {
            let s = b.ctl.quiet(|| snapshot(&b.node(id).root, &uni, false, false));
            let (_, lines) = deep_hash(&s);
            let lines: Vec<String> = lines.into_iter().filter(|l| l.starts_with(&format!("{}/", pfx)) || l.starts_with(&format!("{} ", pfx))).collect();
            let h = lines.iter().fold(0u64, |h, l| crate::rng::mix(h, crate::rng::hash_str(l)));
            (id, h, lines)
        };
        let prefixes = b.lower_layer_prefixes();
        // failing calls alike: arm / disarm the injected failure around its operation
        if let Some(plan) = &cx.cfg.fault {
            let ctl = cx.built[0].ctl.clone();
            if i == plan.op_index {
                let mut f = ctl.fault.lock().unwrap();
                f.armed = true;
                f.counter = 0;
                f.tripped = false;
                f.fail_at = Some(plan.k);
                f.sticky = plan.sticky;
                f.kind = io_kind(&plan.kind);
                f.nodes = plan.nodes;
                drop(f);
                ctl.fault_on.store(true, std::sync::atomic::Ordering::SeqCst);
            } else if i == plan.op_index + 1 {
                ctl.fault.lock().unwrap().armed = false;
            }
        }
        if !started {
            started = true;
            lower_before = layer_roots.iter().map(|id| take(*id)).chain(prefixes.iter().map(|(id, p)| take_prefix(*id, p))).collect();
            b.ctl.take_log();
            b.ctl.set_rec(true);
            return false;
        }
        b.ctl.set_rec(false);
        let log = b.ctl.take_log();
        cx.out.add("probe.c08.calls_recorded", log.len() as u64);
        // (1) no mutating call on any lower layer
        for r in &log {
            if !r.mutating {
                continue;
            }
            let fastpath = matches!(r.method, "copy_file" | "move_file" | "move_dir");
            if fastpath && !r.ok {
                continue;
            }
            let (mp, mp2) = crate::stack::Built::mutated_paths(r.method, &r.path, r.path2.as_deref());
            if b.touches_lower(r.node, mp, mp2) {
                cx.out.count("probe.c08.lower_mutation_seen");
                let kind = b.node(r.node).kind;
                let key = format!("C08|{}|lower-layer-mutating-call|{}|during={}", shape, r.method, op.kind());
                let detail = format!("step {} {:?}: {}('{}') was issued to node {} ({}), which belongs to a lower layer", i, op, r.method, r.path, r.node, kind);
                cx.violate(i, key, detail);
                return true;
            }
            if op.is_observer() {
                let key = format!("C08|{}|observer-mutates|{}|during={}", shape, r.method, op.kind());
                let detail = format!("step {} pure observer {:?} issued the mutating call {}('{}') to node {}", i, op, r.method, r.path, r.node);
                cx.violate(i, key, detail);
                return true;
            }
        }
        if log.iter().any(|r| !r.mutating && b.touches_lower(r.node, &r.path, None)) {
            cx.out.count("probe.c08.lower_layer_read");
        }
        // (2) deep snapshots of lower layers unchanged
        let after: Vec<(u16, u64, Vec<String>)> = layer_roots.iter().map(|id| take(*id)).chain(prefixes.iter().map(|(id, p)| take_prefix(*id, p))).collect();
        for (bef, aft) in lower_before.iter().zip(after.iter()) {
            if bef.1 != aft.1 {
                let diff: Vec<&String> = aft.2.iter().filter(|l| !bef.2.contains(l)).chain(bef.2.iter().filter(|l| !aft.2.contains(l))).take(4).collect();
                let key = format!("C08|{}|lower-layer-changed|during={}", shape, op.kind());
                cx.violate(i, key, format!("step {} {:?} (result {}): lower layer node {} changed: {:?}", i, op, got.class(), bef.0, diff));
                return true;
            }
        }
        lower_before = after;
        cx.built[0].ctl.set_rec(true);
        false
    })
}
