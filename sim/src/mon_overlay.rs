//! Overlay-specific monitors: C10 (tombstones / fresh re-creation / marker hygiene) and
//! C08 (lower layers never modified, observers modify nothing).

use crate::model::*;
use crate::observe::{snapshot, Snap};
use crate::seq::*;
use crate::types::*;
use std::collections::BTreeSet;

fn reserved(name: &str) -> bool {
    name == ".whiteout" || name.ends_with("_wo")
}

/// reserved-looking name that the run itself never used as an entry name
fn bookkeeping(name: &str, user_names: &BTreeSet<String>) -> bool {
    reserved(name) && !user_names.contains(name)
}

/// C10 state: what was removed and not re-created, what was re-created, which names are the user's.
pub struct C10Track {
    tomb: BTreeSet<String>,
    recreated: BTreeSet<String>,
    tomb_by: std::collections::BTreeMap<String, &'static str>,
    initial: Model,
    user_names: BTreeSet<String>,
}

impl C10Track {
    pub fn new(cfg: &RunCfg) -> C10Track {
        let initial = cfg.specs[0].view();
        let mut user_names: BTreeSet<String> = BTreeSet::new();
        for k in initial.t.keys() {
            user_names.extend(k.split('/').map(|c| c.to_string()));
        }
        for op in &cfg.ops {
            for p in op.paths() {
                if let Ok(c) = canon(&p.s) {
                    user_names.extend(c.split('/').map(|c| c.to_string()));
                }
            }
        }
        C10Track { tomb: BTreeSet::new(), recreated: BTreeSet::new(), tomb_by: Default::default(), initial, user_names }
    }

    /// the model moved from m0 to m1 by a successful operation
    pub fn transition(&mut self, m0: &Model, m1: &Model, op: &Op, out: &mut RunOut) {
        for p in m0.t.keys() {
            if !m1.exists(p) {
                self.tomb.insert(p.clone());
                self.tomb_by.insert(p.clone(), op.kind());
                self.recreated.remove(p);
                out.count(if self.initial.exists(p) { "probe.c10.removed_initial_entry" } else { "probe.c10.removed_created_entry" });
            }
        }
        for p in m1.t.keys() {
            if self.tomb.remove(p) {
                self.recreated.insert(p.clone());
                let changed_type = matches!((self.initial.t.get(p), m1.t.get(p)), (Some(Node::Dir), Some(Node::File(_))) | (Some(Node::File(_)), Some(Node::Dir)));
                out.count(if changed_type { "probe.c10.recreated_with_other_type" } else { "probe.c10.recreated" });
            }
        }
    }

    /// (key suffix, detail) of the first C10 violation visible in this snapshot
    pub fn check(&self, s: &Snap, m: &Model, i: usize, op: &Op) -> Option<(String, String)> {
        let mut walked: BTreeSet<String> = BTreeSet::new();
        if let Some(Ok(items)) = &s.walk {
            for it in items.iter().flatten() {
                walked.insert(it.clone());
            }
        }
        // (a) tombstones stay absent for every observer
        for p in self.tomb.iter() {
            if let Some(e) = s.e.get(p) {
                let by = self.tomb_by.get(p).copied().unwrap_or("?");
                let parent_lists = s.e.get(&parent_of(p)).and_then(|pe| pe.list.as_ref().ok()).map(|l| l.iter().any(|c| c == p)).unwrap_or(false);
                let field = if !matches!(e.exists, Ok(false)) {
                    Some("exists")
                } else if e.meta.is_ok() {
                    Some("metadata")
                } else if e.list.is_ok() {
                    Some("read_dir")
                } else if e.bytes.is_ok() {
                    Some("open_file")
                } else if parent_lists {
                    Some("parent-listing")
                } else if walked.contains(p) {
                    Some("walk_dir")
                } else {
                    None
                };
                if let Some(field) = field {
                    let was = if self.initial.exists(p) { "initial layer content" } else { "created during the run" };
                    return Some((
                        format!("tombstone-visible|{}|removed-by={}|after={}", field, by, if i == 0 { "initial" } else { op.kind() }),
                        format!("'{}' ({}; removed by {}) is visible again through {} after step {} {:?}", p, was, by, field, i, op),
                    ));
                }
            }
        }
        // (b) re-created entries are fresh
        for p in self.recreated.iter() {
            match (m.t.get(p), s.e.get(p)) {
                (Some(Node::File(b)), Some(e)) => {
                    if !matches!(&e.bytes, Ok(g) if *g == **b) {
                        return Some((format!("recreated-file-not-fresh|after={}", op.kind()), format!("re-created file '{}' should hold exactly {} new bytes, read gives {}", p, b.len(), short(&e.bytes.as_ref().map(|g| g.len())))));
                    }
                }
                (Some(Node::Dir), Some(e)) => {
                    let want = m.children(p);
                    let got = e.list.clone().map(|mut l| {
                        l.sort();
                        l
                    });
                    if got.as_ref().ok() != Some(&want) {
                        return Some((format!("recreated-dir-not-fresh|after={}", op.kind()), format!("re-created directory '{}' should list {:?}, lists {}", p, want, short(&got))));
                    }
                }
                _ => {}
            }
        }
        // (c) bookkeeping never appears in the overlay's own namespace
        for (d, e) in &s.e {
            if let Ok(l) = &e.list {
                for c in l {
                    if bookkeeping(name_of(c), &self.user_names) {
                        return Some((format!("bookkeeping-visible|listing|dir={}", if d.is_empty() { "root" } else { "sub" }), format!("read_dir('{}') yields the bookkeeping entry '{}' after step {} {:?}", d, c, i, op)));
                    }
                }
            }
        }
        for w in &walked {
            if w.split('/').any(|c| bookkeeping(c, &self.user_names)) {
                return Some(("bookkeeping-visible|walk".to_string(), format!("walk_dir(root) yields the bookkeeping entry '{}' after step {} {:?}", w, i, op)));
            }
        }
        None
    }
}

fn is_creation(op: &Op) -> bool {
    matches!(op, Op::CreateDir(_) | Op::Write { append: false, .. })
}

pub fn run_c10(cfg: &RunCfg, trace: bool) -> RunOut {
    let mut tr = C10Track::new(cfg);
    let mut out = run_loop(cfg, trace, true, &mut |cx, i, op, before, want, got, snaps| {
        let shape = cx.shape.clone();
        // a re-creation may be made to fail by an underlying I/O error: the deletion must persist
        if let Some(plan) = &cx.cfg.fault {
            let ctl = cx.built[0].ctl.clone();
            if i == plan.op_index {
                let mut f = ctl.fault.lock().unwrap();
                f.armed = true;
                f.counter = 0;
                f.tripped = false;
                f.fail_at = Some(plan.k);
                f.sticky = false;
                f.kind = io_kind(&plan.kind);
                f.nodes = plan.nodes;
                drop(f);
                ctl.fault_on.store(true, std::sync::atomic::Ordering::SeqCst);
            } else if i == plan.op_index + 1 {
                ctl.fault.lock().unwrap().armed = false;
            }
        }
        if i > 0 {
            if matches!(want, Want::Unspec) {
                return true;
            }
            let faulted_step = cx.cfg.fault.as_ref().map(|p| p.op_index + 1 == i).unwrap_or(false);
            if faulted_step && is_creation(op) && matches!(want, Want::Ok(_)) && got.is_err() {
                // the re-creating call itself failed for an underlying reason: nothing was re-created
                cx.world = before.clone();
                cx.out.count("probe.c10.failed_recreation_under_fault");
            } else if faulted_step && !got.session_ok() {
                // opened, then a write failed: a partially written file exists (legal); end the run
                return true;
            } else if judge(want, got).is_some() {
                // contract deviation: C09's business; model and implementation have diverged
                cx.out.count("c10.run_ended_by_contract_deviation");
                return true;
            } else {
                let (m0, m1) = (before.m[0].clone(), cx.world.m[0].clone());
                tr.transition(&m0, &m1, op, &mut cx.out);
            }
        }
        let m = cx.world.m[0].clone();
        if let Some((k, d)) = tr.check(&snaps[0], &m, i, op) {
            cx.violate(i, format!("C10|{}|{}", shape, k), d);
            return true;
        }
        // after the step with the injected failure the run ends: the statement is about what a
        // FAILED re-creation may show (nothing new), not about how the overlay's bookkeeping
        // recovers afterwards (an upper copy may exist behind a marker that was not cleared yet)
        if i > 0 && cx.cfg.fault.as_ref().map(|p| p.op_index + 1 == i).unwrap_or(false) && !got.is_ok() {
            return true;
        }
        false
    });
    // the same history through the async overlay (every 3rd run; same injected failure)
    if out.violations.is_empty() && out.harness_error.is_none() && ((cfg.fault.is_some() && cfg.seed % 2 == 0) || cfg.seed % 8 == 0) {
        run_c10_async(cfg, &mut out);
    }
    out
}

fn run_c10_async(cfg: &RunCfg, out: &mut RunOut) {
    use crate::asyncsim::*;
    use std::sync::atomic::Ordering;
    let ab = match abuild(&cfg.specs[0], crate::rng::mix(cfg.order_seed, 0), cfg.permute, crate::rng::mix(cfg.seed, 0xC10), 30) {
        Ok(a) => a,
        Err(_) => return,
    };
    out.count("probe.c10.async_runs");
    let shape = format!("{}/async", cfg.specs[0].shape());
    let mut tr = C10Track::new(cfg);
    let mut world = World { m: vec![cfg.specs[0].view()], w: Default::default() };
    let mut ax = AExec { root: ab.root.clone(), slots: Default::default() };
    let mut universe: BTreeSet<String> = world.m[0].t.keys().cloned().collect();
    for op in &cfg.ops {
        for p in op.paths() {
            if let Ok(c) = canon(&p.s) {
                for a in ancestors(&c) {
                    universe.insert(a);
                }
                universe.insert(c);
            }
        }
    }
    for (idx, op) in cfg.ops.iter().enumerate() {
        let i = idx + 1;
        let before = world.clone();
        let want = world.apply(op);
        for k in world.m[0].t.keys() {
            universe.insert(k.clone());
        }
        if matches!(want, Want::Unspec) {
            return;
        }
        let faulted = cfg.fault.as_ref().map(|p| p.op_index == idx).unwrap_or(false);
        ab.ctl.on.store(true, Ordering::SeqCst);
        if faulted {
            ab.ctl.calls.store(0, Ordering::SeqCst);
            ab.ctl.fail_at.store(cfg.fault.as_ref().unwrap().k, Ordering::SeqCst);
        }
        let mut st = PollStats::default();
        let got = ax.exec(op, &mut st);
        ab.ctl.fail_at.store(0, Ordering::SeqCst);
        ab.ctl.on.store(false, Ordering::SeqCst);
        out.steps += 1;
        if got.is_panic() {
            return;
        }
        if faulted && is_creation(op) && matches!(want, Want::Ok(_)) && got.is_err() {
            world = before.clone();
            out.count("probe.c10.async_failed_recreation_under_fault");
        } else if faulted && !got.session_ok() {
            return;
        } else if judge(&want, &got).is_some() {
            return;
        } else {
            let (m0, m1) = (before.m[0].clone(), world.m[0].clone());
            let mut dummy = RunOut::default();
            tr.transition(&m0, &m1, op, &mut dummy);
        }
        let snap = match asnapshot(&ab, &universe) {
            Ok(s) => s,
            Err(_) => return,
        };
        if let Some((k, d)) = tr.check(&snap, &world.m[0], i, op) {
            out.violations.push(Violation { property: "C10".into(), key: format!("C10|{}|{}", shape, k), detail: format!("async overlay: {}", d), step: i });
            return;
        }
        if faulted && !got.is_ok() {
            return;
        }
    }
}

/// hash of everything C08 demands to stay unchanged in a lower layer: types, bytes,
/// created/modified times (accessed excluded: a layer may update it when it is read)
fn deep_hash(s: &Snap) -> (u64, Vec<String>) {
    let mut h = 0u64;
    let mut lines = vec![];
    for (p, e) in &s.e {
        let ex = matches!(e.exists, Ok(true));
        if !ex {
            continue;
        }
        let (dir, len, cr, mo) = match &e.meta {
            Ok(m) => (m.dir, m.len, m.times[0], m.times[1]),
            Err(_) => (false, u64::MAX, None, None),
        };
        let bh = e.bytes.as_ref().map(|b| crate::rng::hash_bytes(b)).unwrap_or(0);
        let line = format!("{} dir={} len={} created={:?} modified={:?} bytes={:x}", p, dir, len, cr, mo, bh);
        h = crate::rng::mix(h, crate::rng::hash_str(&line));
        lines.push(line);
    }
    (h, lines)
}

pub fn run_c08(cfg: &RunCfg, trace: bool) -> RunOut {
    let mut lower_before: Vec<(u16, u64, Vec<String>)> = vec![];
    let mut started = false;
    run_loop(cfg, trace, false, &mut |cx, i, op, _before, _want, got, _snaps| {
        let shape = cx.shape.clone();
        let b = &cx.built[0];
        let lowers = b.lower_layer_nodes();
        // direct lower layers only for deep snapshots (roots of layers with index >= 1)
        let layer_roots: Vec<u16> = b.nodes.iter().filter(|n| n.layer_index.map(|x| x >= 1).unwrap_or(false) && b.nodes[n.parent.unwrap() as usize].kind == "ovl").map(|n| n.id).collect();
        let uni: BTreeSet<String> = BTreeSet::new();
        let take = |id: u16| -> (u16, u64, Vec<String>) {
            let s = b.ctl.quiet(|| snapshot(&b.node(id).root, &uni, false, false));
            let (h, lines) = deep_hash(&s);
            (id, h, lines)
        };
        // layers that are sub-directories of a shared instance: the part of the shared
        // filesystem below the layer directory
        let take_prefix = |id: u16, pfx: &str| -> (u16, u64, Vec<String>) {
            let s = b.ctl.quiet(|| snapshot(&b.node(id).root, &uni, false, false));
            let (_, lines) = deep_hash(&s);
            let lines: Vec<String> = lines.into_iter().filter(|l| l.starts_with(&format!("{}/", pfx)) || l.starts_with(&format!("{} ", pfx))).collect();
            let h = lines.iter().fold(0u64, |h, l| crate::rng::mix(h, crate::rng::hash_str(l)));
            (id, h, lines)
        };
        let prefixes = b.lower_layer_prefixes();
        // failing calls alike: arm / disarm the injected failure around its operation
        if let Some(plan) = &cx.cfg.fault {
            let ctl = cx.built[0].ctl.clone();
            if i == plan.op_index {
                let mut f = ctl.fault.lock().unwrap();
                f.armed = true;
                f.counter = 0;
                f.tripped = false;
                f.fail_at = Some(plan.k);
                f.sticky = plan.sticky;
                f.kind = io_kind(&plan.kind);
                f.nodes = plan.nodes;
                drop(f);
                ctl.fault_on.store(true, std::sync::atomic::Ordering::SeqCst);
            } else if i == plan.op_index + 1 {
                ctl.fault.lock().unwrap().armed = false;
            }
        }
        if !started {
            started = true;
            lower_before = layer_roots.iter().map(|id| take(*id)).chain(prefixes.iter().map(|(id, p)| take_prefix(*id, p))).collect();
            b.ctl.take_log();
            b.ctl.set_rec(true);
            return false;
        }
        b.ctl.set_rec(false);
        let log = b.ctl.take_log();
        cx.out.add("probe.c08.calls_recorded", log.len() as u64);
        // (1) no mutating call on any lower layer
        for r in &log {
            if !r.mutating {
                continue;
            }
            let fastpath = matches!(r.method, "copy_file" | "move_file" | "move_dir");
            if fastpath && !r.ok {
                continue;
            }
            let (mp, mp2) = crate::stack::Built::mutated_paths(r.method, &r.path, r.path2.as_deref());
            if b.touches_lower(r.node, mp, mp2) {
                cx.out.count("probe.c08.lower_mutation_seen");
                let kind = b.node(r.node).kind;
                let key = format!("C08|{}|lower-layer-mutating-call|{}|during={}", shape, r.method, op.kind());
                let detail = format!("step {} {:?}: {}('{}') was issued to node {} ({}), which belongs to a lower layer", i, op, r.method, r.path, r.node, kind);
                cx.violate(i, key, detail);
                return true;
            }
            if op.is_observer() {
                let key = format!("C08|{}|observer-mutates|{}|during={}", shape, r.method, op.kind());
                let detail = format!("step {} pure observer {:?} issued the mutating call {}('{}') to node {}", i, op, r.method, r.path, r.node);
                cx.violate(i, key, detail);
                return true;
            }
        }
        if log.iter().any(|r| !r.mutating && b.touches_lower(r.node, &r.path, None)) {
            cx.out.count("probe.c08.lower_layer_read");
        }
        // (2) deep snapshots of lower layers unchanged
        let after: Vec<(u16, u64, Vec<String>)> = layer_roots.iter().map(|id| take(*id)).chain(prefixes.iter().map(|(id, p)| take_prefix(*id, p))).collect();
        for (bef, aft) in lower_before.iter().zip(after.iter()) {
            if bef.1 != aft.1 {
                let diff: Vec<&String> = aft.2.iter().filter(|l| !bef.2.contains(l)).chain(bef.2.iter().filter(|l| !aft.2.contains(l))).take(4).collect();
                let key = format!("C08|{}|lower-layer-changed|during={}", shape, op.kind());
                cx.violate(i, key, format!("step {} {:?} (result {}): lower layer node {} changed: {:?}", i, op, got.class(), bef.0, diff));
                return true;
            }
        }
        lower_before = after;
        cx.built[0].ctl.set_rec(true);
        false
    })
}
