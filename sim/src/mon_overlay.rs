//! Overlay-specific monitors: C10 (tombstones / fresh re-creation / marker hygiene) and
//! C08 (lower layers never modified, observers modify nothing).

use crate::model::*;
use crate::observe::{snapshot, Snap};
use crate::seq::*;
use crate::types::*;
use std::collections::BTreeSet;

fn reserved(name: &str) -> bool {
    name == ".whiteout" || name.ends_with("_wo")
}

/// reserved-looking name that the run itself never used as an entry name
fn bookkeeping(name: &str, user_names: &BTreeSet<String>) -> bool {
    reserved(name) && !user_names.contains(name)
}

/// C10 state: what was removed and not re-created, what was re-created, which names are the user's.
pub struct C10Track {
    tomb: BTreeSet<String>,
    recreated: BTreeSet<String>,
    tomb_by: std::collections::BTreeMap<String, &'static str>,
    initial: Model,
    user_names: BTreeSet<String>,
}

impl C10Track {
    pub fn new(cfg: &RunCfg) -> C10Track {
        let initial = cfg.specs[0].view();
        let mut user_names: BTreeSet<String> = BTreeSet::new();
        for k in initial.t.keys() {
            user_names.extend(k.split('/').map(|c| c.to_string()));
        }
        for op in &cfg.ops {
            for p in op.paths() {
                if let Ok(c) = canon(&p.s) {
                    user_names.extend(c.split('/').map(|c| c.to_string()));
                }
            }
        }
        C10Track { tomb: BTreeSet::new(), recreated: BTreeSet::new(), tomb_by: Default::default(), initial, user_names }
    }

    /// the model moved from m0 to m1 by a successful operation
    pub fn transition(&mut self, m0: &Model, m1: &Model, op: &Op, out: &mut RunOut) {
        for p in m0.t.keys() {
            if !m1.exists(p) {
                self.tomb.insert(p.clone());
                self.tomb_by.insert(p.clone(), op.kind());
                self.recreated.remove(p);
                out.count(if self.initial.exists(p) { "probe.c10.removed_initial_entry" } else { "probe.c10.removed_created_entry" });
            }
        }
        for p in m1.t.keys() {
            if self.tomb.remove(p) {
                self.recreated.insert(p.clone());
                let changed_type = matches!((self.initial.t.get(p), m1.t.get(p)), (Some(Node::Dir), Some(Node::File(_))) | (Some(Node::File(_)), Some(Node::Dir)));
                out.count(if changed_type { "probe.c10.recreated_with_other_type" } else { "probe.c10.recreated" });
            }
        }
    }

    /// (key suffix, detail) of the first C10 violation visible in this snapshot
    pub fn check(&self, s: &Snap, m: &Model, i: usize, op: &Op) -> Option<(String, String)> {
        let mut walked: BTreeSet<String> = BTreeSet::new();
        if let Some(Ok(items)) = &s.walk {
            for it in items.iter().flatten() {
                walked.insert(it.clone());
            }
        }
        // (a) tombstones stay absent for every observer
        for p in self.tomb.iter() {
            if let Some(e) = s.e.get(p) {
                let by = self.tomb_by.get(p).copied().unwrap_or("?");
                let parent_lists = s.e.get(&parent_of(p)).and_then(|pe| pe.list.as_ref().ok()).map(|l| l.iter().any(|c| c == p)).unwrap_or(false);
                let field = if !matches!(e.exists, Ok(false)) {
                    Some("exists")
                } else if e.meta.is_ok() {
                    Some("metadata")
                } else if e.list.is_ok() {
                    Some("read_dir")
                } else if e.bytes.is_ok() {
                    Some("open_file")
                } else if parent_lists {
                    Some("parent-listing")
                } else if walked.contains(p) {
                    Some("walk_dir")
                } else {
                    None
                };
                if let Some(field) = field {
                    let was = if self.initial.exists(p) { "initial layer content" } else { "created during the run" };
                    return Some((
                        format!("tombstone-visible|{}|removed-by={}|after={}", field, by, if i == 0 { "initial" } else { op.kind() }),
                        format!("'{}' ({}; removed by {}) is visible again through {} after step {} {:?}", p, was, by, field, i, op),
                    ));
                }
            }
        }
        // (b) re-created entries are fresh
        for p in self.recreated.iter() {
            match (m.t.get(p), s.e.get(p)) {
                (Some(Node::File(b)), Some(e)) => {
                    if !matches!(&e.bytes, Ok(g) if *g == **b) {
                        return Some((format!("recreated-file-not-fresh|after={}", op.kind()), format!("re-created file '{}' should hold exactly {} new bytes, read gives {}", p, b.len(), short(&e.bytes.as_ref().map(|g| g.len())))));
                    }
                }
                (Some(Node::Dir), Some(e)) => {
                    let want = m.children(p);
                    let got = e.list.clone().map(|mut l| {
                        l.sort();
                        l
                    });
                    if got.as_ref().ok() != Some(&want) {
                        return Some((format!("recreated-dir-not-fresh|after={}", op.kind()), format!("re-created directory '{}' should list {:?}, lists {}", p, want, short(&got))));
                    }
                }
                _ => {}
            }
        }
        // (c) bookkeeping never appears in the overlay's own namespace
        for (d, e) in &s.e {
            if let Ok(l) = &e.list {
                for c in l {
                    if bookkeeping(name_of(c), &self.user_names) {
                        return Some((format!("bookkeeping-visible|listing|dir={}", if d.is_empty() { "root" } else { "sub" }), format!("read_dir('{}') yields the bookkeeping entry '{}' after step {} {:?}", d, c, i, op)));
                    }
                }
            }
        }
        for w in &walked {
            if w.split('/').any(|c| bookkeeping(c, &self.user_names)) {
                return Some(("bookkeeping-visible|walk".to_string(), format!("walk_dir(root) yields the bookkeeping entry '{}' after step {} {:?}", w, i, op)));
            }
        }
        None
    }
}

/// an operation that needs its (first) path to EXIST succeeded on a removed, not re-created
/// entry: the entry was observed as present
fn accepted_tombstone(tr: &C10Track, op: &Op, want: &Want, got: &Res) -> Option<(String, String)> {
    if !matches!(want, Want::Err(_)) || !got.is_ok() {
        return None;
    }
    let needs_existing = matches!(
        op,
        Op::Write { append: true, .. } | Op::OpenWrite { append: true, .. } | Op::RemoveFile(_) | Op::RemoveDir(_) | Op::ReadFile(..) | Op::ReadToString(_) | Op::OpenRead(..) | Op::CopyFile(..) | Op::MoveFile(..) | Op::CopyDir(..) | Op::MoveDir(..) | Op::SetTime(..) | Op::ReadDir(_)
    );
    if !needs_existing {
        return None;
    }
    let c = op.paths().first().and_then(|p| canon(&p.s).ok())?;
    if !tr.tomb.contains(&c) {
        return None;
    }
    let by = tr.tomb_by.get(&c).copied().unwrap_or("?");
    Some((format!("tombstone-accepted|{}|removed-by={}", op.kind(), by), format!("{:?} succeeded on '{}', which was removed by {} and not re-created", op, c, by)))
}

fn is_creation(op: &Op) -> bool {
    matches!(op, Op::CreateDir(_) | Op::Write { append: false, .. })
}

pub fn run_c10(cfg: &RunCfg, trace: bool) -> RunOut {
    let mut tr = C10Track::new(cfg);
    let mut out = run_loop(cfg, trace, true, &mut |cx, i, op, before, want, got, snaps| {
        let shape = cx.shape.clone();
        // a re-creation may be made to fail by an underlying I/O error: the deletion must persist
        if let Some(plan) = &cx.cfg.fault {
            let ctl = cx.built[0].ctl.clone();
            if i == plan.op_index {
                let mut f = ctl.fault.lock().unwrap();
                f.armed = true;
                f.counter = 0;
                f.tripped = false;
                f.fail_at = Some(plan.k);
                f.sticky = false;
                f.kind = io_kind(&plan.kind);
                f.nodes = plan.nodes;
                drop(f);
                ctl.fault_on.store(true, std::sync::atomic::Ordering::SeqCst);
            } else if i == plan.op_index + 1 {
                ctl.fault.lock().unwrap().armed = false;
            }
        }
        if i > 0 {
            if matches!(want, Want::Unspec) {
                return true;
            }
            let faulted_step = cx.cfg.fault.as_ref().map(|p| p.op_index + 1 == i).unwrap_or(false);
            if faulted_step && is_creation(op) && matches!(want, Want::Ok(_)) && got.is_err() {
                // the re-creating call itself failed for an underlying reason: nothing was re-created
                cx.world = before.clone();
                cx.out.count("probe.c10.failed_recreation_under_fault");
            } else if faulted_step && !got.session_ok() {
                // opened, then a write failed: a partially written file exists (legal); end the run
                return true;
            } else if faulted_step && matches!(op, Op::RemoveDir(_) | Op::RemoveFile(_)) && matches!(want, Want::Err(_)) && got.is_ok() {
                // a removal the contract refuses (non-empty directory) reported success while an
                // underlying call failed: C20's finding - and for C10 the entry counts as removed,
                // with everything that was inside it
                let c = op.paths().first().and_then(|p| canon(&p.s).ok()).unwrap_or_default();
                if !c.is_empty() && before.m[0].exists(&c) {
                    let mut m1 = before.m[0].clone();
                    let doomed: Vec<String> = m1.t.keys().filter(|k| **k == c || is_under(k, &c)).cloned().collect();
                    for k in doomed {
                        m1.t.remove(&k);
                    }
                    tr.transition(&before.m[0], &m1, op, &mut cx.out);
                    cx.out.count("probe.c10.refused_removal_succeeded_under_fault");
                    if let Some((k, d)) = tr.check(&snaps[0], &m1, i, op) {
                        cx.violate(i, format!("C10|{}|{}|removal-under-failure", shape, k), d);
                    }
                }
                return true;
            } else if judge(want, got).is_some() {
                if let Some((k, d)) = accepted_tombstone(&tr, op, want, got) {
                    cx.violate(i, format!("C10|{}|{}", shape, k), format!("step {} {}", i, d));
                    return true;
                }
                // any other contract deviation: C09's business; model and implementation have diverged
                cx.out.count("c10.run_ended_by_contract_deviation");
                return true;
            } else {
                let (m0, m1) = (before.m[0].clone(), cx.world.m[0].clone());
                tr.transition(&m0, &m1, op, &mut cx.out);
            }
        }
        let m = cx.world.m[0].clone();
        if let Some((k, d)) = tr.check(&snaps[0], &m, i, op) {
            cx.violate(i, format!("C10|{}|{}", shape, k), d);
            return true;
        }
        // after the step with the injected failure the run ends: the statement is about what a
        // FAILED re-creation may show (nothing new), not about how the overlay's bookkeeping
        // recovers afterwards (an upper copy may exist behind a marker that was not cleared yet)
        if i > 0 && cx.cfg.fault.as_ref().map(|p| p.op_index + 1 == i).unwrap_or(false) && !got.is_ok() {
            return true;
        }
        false
    });
    // the same history through the async overlay (every 3rd run; same injected failure)
    if out.violations.is_empty() && out.harness_error.is_none() && ((cfg.fault.is_some() && cfg.seed % 2 == 0) || cfg.seed % 8 == 0) {
        run_c10_async(cfg, &mut out);
    }
    out
}

fn run_c10_async(cfg: &RunCfg, out: &mut RunOut) {
    use crate::asyncsim::*;
    use std::sync::atomic::Ordering;
    let mut ab = match abuild(&cfg.specs[0], crate::rng::mix(cfg.order_seed, 0), cfg.permute, crate::rng::mix(cfg.seed, 0xC10), 30) {
        Ok(a) => a,
        Err(_) => return,
    };
    out.count("probe.c10.async_runs");
    let shape = format!("{}/async", cfg.specs[0].shape());
    let mut tr = C10Track::new(cfg);
    let mut world = World { m: vec![cfg.specs[0].view()], w: Default::default() };
    let mut ax = AExec { root: ab.root.clone(), slots: Default::default(), others: vec![] };
    let mut universe: BTreeSet<String> = world.m[0].t.keys().cloned().collect();
    for op in &cfg.ops {
        for p in op.paths() {
            if let Ok(c) = canon(&p.s) {
                for a in ancestors(&c) {
                    universe.insert(a);
                }
                universe.insert(c);
            }
        }
    }
    for (idx, op) in cfg.ops.iter().enumerate() {
        let i = idx + 1;
        let before = world.clone();
        let want = world.apply(op);
        for k in world.m[0].t.keys() {
            universe.insert(k.clone());
        }
        if matches!(want, Want::Unspec) {
            return;
        }
        let faulted = cfg.fault.as_ref().map(|p| p.op_index == idx).unwrap_or(false);
        if matches!(op, Op::Reopen) && ax.slots.is_empty() {
            if areopen(&mut ab, &cfg.specs[0]).is_err() {
                return;
            }
            ax.root = ab.root.clone();
            out.count("fault.async_restart_adapters_rebuilt");
        }
        ab.ctl.on.store(true, Ordering::SeqCst);
        if faulted {
            ab.ctl.calls.store(0, Ordering::SeqCst);
            ab.ctl.fail_at.store(cfg.fault.as_ref().unwrap().k, Ordering::SeqCst);
        }
        let mut st = PollStats::default();
        let got = ax.exec(op, &mut st);
        ab.ctl.fail_at.store(0, Ordering::SeqCst);
        ab.ctl.on.store(false, Ordering::SeqCst);
        out.steps += 1;
        if got.is_panic() {
            return;
        }
        if faulted && is_creation(op) && matches!(want, Want::Ok(_)) && got.is_err() {
            world = before.clone();
            out.count("probe.c10.async_failed_recreation_under_fault");
        } else if faulted && !got.session_ok() {
            return;
        } else if judge(&want, &got).is_some() {
            if let Some((k, d)) = accepted_tombstone(&tr, op, &want, &got) {
                out.violations.push(Violation { property: "C10".into(), key: format!("C10|{}|{}", shape, k), detail: format!("async overlay: step {} {}", i, d), step: i });
            }
            return;
        } else {
            let (m0, m1) = (before.m[0].clone(), world.m[0].clone());
            let mut dummy = RunOut::default();
            tr.transition(&m0, &m1, op, &mut dummy);
        }
        let snap = match asnapshot(&ab, &universe) {
            Ok(s) => s,
            Err(_) => return,
        };
        if let Some((k, d)) = tr.check(&snap, &world.m[0], i, op) {
            out.violations.push(Violation { property: "C10".into(), key: format!("C10|{}|{}", shape, k), detail: format!("async overlay: {}", d), step: i });
            return;
        }
        if faulted && !got.is_ok() {
            return;
        }
    }
}

/// hash of everything C08 demands to stay unchanged in a lower layer: types, bytes,
/// created/modified times (accessed excluded: a layer may update it when it is read)
fn deep_hash(s: &Snap) -> (u64, Vec<String>) {
    let mut h = 0u64;
    let mut lines = vec![];
    for (p, e) in &s.e {
        let ex = matches!(e.exists, Ok(true));
        if !ex {
            continue;
        }
        let (dir, len, cr, mo) = match &e.meta {
            Ok(m) => (m.dir, m.len, m.times[0], m.times[1]),
            Err(_) => (false, u64::MAX, None, None),
        };
        let bh = e.bytes.as_ref().map(|b| crate::rng::hash_bytes(b)).unwrap_or(0);
        let line = format!("{} dir={} len={} created={:?} modified={:?} bytes={:x}", p, dir, len, cr, mo, bh);
        h = crate::rng::mix(h, crate::rng::hash_str(&line));
        lines.push(line);
    }
    (h, lines)
}

pub fn run_c08(cfg: &RunCfg, trace: bool) -> RunOut {
    let mut out = run_c08_sync(cfg, trace);
    // async port: the same history through AsyncOverlayFS stacks, every layer behind the async
    // recorder; inside a tokio runtime (the async physical time setters need one)
    if out.violations.is_empty() && out.harness_error.is_none() && cfg.seed % 3 == 0 && !spec_has_emb(&cfg.specs[0]) {
        if let Some((key, detail, step)) = async_c08_mirror(cfg, &mut out) {
            out.violations.push(Violation { property: cfg.property.clone(), key, detail, step });
        }
    }
    // two threads: the tail of the history split over two callers of the same overlay, under
    // seeded schedules (lock and layer-call granularity); no layer but the first may be written
    if out.violations.is_empty() && out.harness_error.is_none() && cfg.seed % 4 == 1 && !spec_has_emb(&cfg.specs[0]) && !cfg.specs[0].has_phys() && cfg.fault.is_none() {
        if let Some((key, detail, step)) = conc_c08_mirror(cfg, &mut out) {
            out.violations.push(Violation { property: cfg.property.clone(), key, detail, step });
        }
    }
    out
}

/// a writer and a remover of the same lower-layer file (optionally copied up first)
fn targeted_race(spec: &crate::stack::Spec, rng: &mut crate::rng::Rng) -> Option<(Vec<Op>, Vec<Vec<Op>>)> {
    let layers = match spec {
        crate::stack::Spec::Ovl { layers } if layers.len() >= 2 => layers,
        _ => return None,
    };
    let mut files: Vec<String> = vec![];
    for l in layers.iter().skip(1) {
        let m = l.view();
        for (p, n) in m.t.iter() {
            if matches!(n, Node::File(_)) && !files.contains(p) {
                files.push(p.clone());
            }
        }
    }
    if files.is_empty() {
        return None;
    }
    let f = files[rng.below(files.len())].clone();
    let pl = |id: u32| Payload { id: 9000 + id, len: 3, utf8: true };
    let mut setup = vec![];
    if rng.pct(60) {
        setup.push(Op::Write { p: P::new(&f), append: true, script: vec![WStep::Write(pl(1))] });
    }
    let writer = match rng.below(4) {
        0 => Op::Write { p: P::new(&f), append: true, script: vec![WStep::Write(pl(2))] },
        1 => Op::Write { p: P::new(&f), append: false, script: vec![WStep::Write(pl(3))] },
        2 => Op::SetTime(P::new(&f), TField::Modified, 1_000_000 + rng.below(1000) as i64, 0),
        _ => Op::CopyFile(P::new(&f), P::new(&format!("{}_c", f))),
    };
    let par = parent_of(&f);
    let remover = match rng.below(if par.is_empty() { 2 } else { 3 }) {
        0 => Op::RemoveFile(P::new(&f)),
        1 => Op::MoveFile(P::new(&f), P::new(&format!("{}_m", f))),
        _ => Op::RemoveDirAll(P::new(&par)),
    };
    let mut t0 = vec![writer];
    if rng.pct(30) {
        t0.push(Op::Write { p: P::new(&f), append: true, script: vec![WStep::Write(pl(4))] });
    }
    Some((setup, vec![t0, vec![remover]]))
}

fn conc_c08_mirror(cfg: &RunCfg, out: &mut RunOut) -> Option<(String, String, usize)> {
    let self_contained = |o: &Op| !matches!(o, Op::OpenRead(..) | Op::OpenWrite { .. } | Op::HRead(..) | Op::HWrite(..) | Op::HSeek(..) | Op::HFlush(_) | Op::HDrop(_));
    let ops: Vec<Op> = cfg.ops.iter().filter(|o| self_contained(o)).cloned().collect();
    let mut rng = crate::rng::Rng::new(crate::rng::mix(cfg.seed, 0xC08C));
    let targeted = if rng.pct(55) { targeted_race(&cfg.specs[0], &mut rng) } else { None };
    let (setup, program) = match targeted {
        Some(x) => {
            out.count("probe.c08.conc_targeted_writer_vs_remover");
            x
        }
        None => {
            if ops.len() < 2 {
                return None;
            }
            let tail = (2 + rng.below(4)).min(ops.len());
            let (setup, conc) = ops.split_at(ops.len() - tail);
            let mut program: Vec<Vec<Op>> = vec![vec![], vec![]];
            for (k, op) in conc.iter().enumerate() {
                // keep at least one call per thread
                let t = if k == 0 { 0 } else if k == 1 { 1 } else { rng.below(2) };
                program[t].push(op.clone());
            }
            (setup.to_vec(), program)
        }
    };
    let ccfg = crate::conc::ConcCfg { property: "C08".into(), seed: cfg.seed, spec: cfg.specs[0].clone(), program, n_schedules: 0, schedule: None, sched_fs: true, setup };
    let (lower_nodes, lower_pfx) = cfg.specs[0].lower_info();
    let touches = |node: u16, p: &str| -> bool { lower_nodes.contains(&node) || lower_pfx.iter().any(|(id, pfx)| *id == node && (p == pfx || crate::model::is_under(p, pfx))) };
    let shape = format!("{}/2threads", cfg.specs[0].shape());
    out.count("probe.c08.conc_programs");
    for k in 0..6u64 {
        let pct = if k % 3 == 2 { Some(1 + (k as usize / 3) % 3) } else { None };
        let run = match crate::conc::run_schedule(&ccfg, crate::rng::mix(cfg.seed, 0x5C0 + k), pct, None) {
            Ok(r) => r,
            Err(_) => return None,
        };
        if run.abort.is_some() {
            out.count("probe.c08.conc_aborted");
            continue;
        }
        out.count("probe.c08.conc_schedules");
        out.log_hash = crate::rng::mix(out.log_hash, run.decisions.iter().fold(run.final_hash, |h, d| crate::rng::mix(h, *d as u64)));
        for r in &run.log {
            if !r.mutating {
                continue;
            }
            let fastpath = matches!(r.method, "copy_file" | "move_file" | "move_dir");
            if fastpath && !r.ok {
                continue;
            }
            let (mp, mp2) = crate::stack::Built::mutated_paths(r.method, &r.path, r.path2.as_deref());
            if touches(r.node, mp) || mp2.map(|p| touches(r.node, p)).unwrap_or(false) {
                out.count("probe.c08.conc_lower_mutation_seen");
                return Some((format!("C08|{}|lower-layer-mutating-call|{}", shape, r.method), format!("two threads {:?} after the sequential prefix of {} calls, schedule {:?}: {}('{}') was issued to node {}, which belongs to a lower layer", ccfg.program, ccfg.setup.len(), run.decisions, r.method, r.path, r.node), cfg.ops.len()));
            }
        }
    }
    None
}

fn spec_has_emb(s: &crate::stack::Spec) -> bool {
    use crate::stack::Spec;
    match s {
        Spec::Emb => true,
        Spec::Mem { .. } | Spec::Phys { .. } => false,
        Spec::Alt { inner, .. } => spec_has_emb(inner),
        Spec::Ovl { layers } => layers.iter().any(spec_has_emb),
        Spec::OvlSub { base, .. } => spec_has_emb(base),
    }
}

/// a lower-layer file is removed and re-created through the async overlay, with the k-th
/// underlying call of the re-creation failing (every k): whatever the failed call left behind
/// (e.g. a marker AND an upper entry), the pure observers that follow must not mutate anything
fn async_recreate_under_failure(cfg: &RunCfg, out: &mut RunOut) -> Option<(String, String, usize)> {
    use crate::asyncsim::*;
    use std::sync::atomic::Ordering;
    let layers = match &cfg.specs[0] {
        crate::stack::Spec::Ovl { layers } if layers.len() >= 2 => layers,
        _ => return None,
    };
    let upper = layers[0].view();
    let f = layers.iter().skip(1).flat_map(|l| l.view().t.into_iter()).find(|(p, n)| matches!(n, Node::File(_)) && !upper.exists(p)).map(|(p, _)| p)?;
    let shape = format!("{}/async", cfg.specs[0].shape());
    let (lower_nodes, _) = cfg.specs[0].lower_info();
    out.count("probe.c08.async_recreate_under_failure_scenarios");
    for k in 1..=18u64 {
        let ab = abuild(&cfg.specs[0], crate::rng::mix(cfg.order_seed, 0), cfg.permute, crate::rng::mix(cfg.seed, 0xC08B), 10).ok()?;
        let mut ax = AExec { root: ab.root.clone(), slots: Default::default(), others: vec![] };
        let mut st = PollStats::default();
        ab.ctl.on.store(true, Ordering::SeqCst);
        let _ = ax.exec(&Op::RemoveFile(P::new(&f)), &mut st);
        ab.ctl.calls.store(0, Ordering::SeqCst);
        ab.ctl.fail_at.store(k, Ordering::SeqCst);
        let r = ax.exec(&Op::Write { p: P::new(&f), append: false, script: vec![WStep::Write(Payload { id: 9100, len: 4, utf8: true })] }, &mut st);
        ab.ctl.fail_at.store(0, Ordering::SeqCst);
        if r.is_panic() {
            return None;
        }
        let observers = [Op::Metadata(P::new(&f)), Op::ReadFile(P::new(&f), 64), Op::ReadDir(P::new(&parent_of(&f))), Op::Exists(P::new(&f)), Op::IsFile(P::new(&f)), Op::WalkDir(P::new(""))];
        for ob in observers.iter() {
            ab.ctl.take_rec();
            ab.ctl.rec_on.store(true, Ordering::SeqCst);
            let _ = ax.exec(ob, &mut st);
            ab.ctl.rec_on.store(false, Ordering::SeqCst);
            for rec in ab.ctl.take_rec() {
                let lower = lower_nodes.contains(&rec.node);
                return Some((format!("C08|{}|observer-mutates|{}|during={}|after-failed-recreation", shape, rec.method, ob.kind()), format!("'{}' removed, re-creation with underlying call #{} failing (result {}), then the pure observer {:?} issued the mutating call {}('{}') to node {}{}", f, k, r.class(), ob, rec.method, rec.path, rec.node, if lower { " (a lower layer)" } else { "" }), 2));
            }
        }
        ab.ctl.on.store(false, Ordering::SeqCst);
    }
    None
}

fn async_c08_mirror(cfg: &RunCfg, out: &mut RunOut) -> Option<(String, String, usize)> {
    use crate::asyncsim::*;
    use std::sync::atomic::Ordering;
    let rt = tokio::runtime::Builder::new_current_thread().build().ok()?;
    let _guard = rt.enter();
    if cfg.seed % 9 == 0 {
        if let Some(v) = async_recreate_under_failure(cfg, out) {
            return Some(v);
        }
    }
    let ab = match abuild(&cfg.specs[0], crate::rng::mix(cfg.order_seed, 0), cfg.permute, crate::rng::mix(cfg.seed, 0xC08A), 15) {
        Ok(ab) => ab,
        Err(e) if e.starts_with("LIBRARY-PANIC") => return Some(("async|build|panic".into(), e, 0)),
        Err(_) => return None,
    };
    out.count("probe.c08.async_runs");
    let shape = format!("{}/async", cfg.specs[0].shape());
    let (lower_nodes, lower_pfx) = cfg.specs[0].lower_info();
    let touches = |node: u16, p: &str| -> bool { lower_nodes.contains(&node) || lower_pfx.iter().any(|(id, pfx)| *id == node && (p == pfx || crate::model::is_under(p, pfx))) };
    let mut ax = AExec { root: ab.root.clone(), slots: Default::default(), others: vec![] };
    // one injected failure (k-th underlying call of one operation) in half of the runs
    let mut rng = crate::rng::Rng::new(crate::rng::mix(cfg.seed, 0xFA08));
    let fault_at = if rng.pct(50) && !cfg.ops.is_empty() { Some((rng.below(cfg.ops.len()), 1 + rng.below(8) as u64)) } else { None };
    for (idx, op) in cfg.ops.iter().enumerate() {
        let i = idx + 1;
        let faulted = matches!(fault_at, Some((at, _)) if at == idx);
        if let Some((_, k)) = fault_at.filter(|_| faulted) {
            ab.ctl.calls.store(0, Ordering::SeqCst);
            ab.ctl.fail_at.store(k, Ordering::SeqCst);
        }
        ab.ctl.take_rec();
        ab.ctl.rec_on.store(true, Ordering::SeqCst);
        ab.ctl.on.store(true, Ordering::SeqCst);
        let mut st = PollStats::default();
        let got = ax.exec(op, &mut st);
        ab.ctl.on.store(false, Ordering::SeqCst);
        ab.ctl.rec_on.store(false, Ordering::SeqCst);
        ab.ctl.fail_at.store(0, Ordering::SeqCst);
        let log = ab.ctl.take_rec();
        out.add("probe.c08.async_calls_recorded", log.len() as u64);
        if faulted && ab.ctl.faults_fired.load(Ordering::SeqCst) > 0 {
            out.count("fault.c08.async_kth_call_failed");
        }
        if got.is_panic() {
            return None; // C13's business
        }
        for r in &log {
            let fastpath = matches!(r.method, "copy_file" | "move_file" | "move_dir");
            if fastpath && !r.ok {
                continue;
            }
            let (mp, mp2) = crate::stack::Built::mutated_paths(r.method, &r.path, r.path2.as_deref());
            if touches(r.node, mp) || mp2.map(|p| touches(r.node, p)).unwrap_or(false) {
                out.count("probe.c08.async_lower_mutation_seen");
                return Some((format!("C08|{}|lower-layer-mutating-call|{}|during={}", shape, r.method, op.kind()), format!("step {} {:?} (async port{}): {}('{}') was issued to node {}, which belongs to a lower layer", i, op, if faulted { ", one injected failure" } else { "" }, r.method, r.path, r.node), i));
            }
            if op.is_observer() {
                return Some((format!("C08|{}|observer-mutates|{}|during={}", shape, r.method, op.kind()), format!("step {} pure observer {:?} (async port) issued the mutating call {}('{}') to node {}", i, op, r.method, r.path, r.node), i));
            }
        }
        // after a failed step the history is not the generated one any more - but the two rules
        // judged here (no mutating call reaches a lower layer, observers mutate nothing) hold in
        // every state, e.g. with a marker AND an upper entry left behind by the failed call
        let _ = faulted;
    }
    None
}

fn run_c08_sync(cfg: &RunCfg, trace: bool) -> RunOut {
    let mut lower_before: Vec<(u16, u64, Vec<String>)> = vec![];
    let mut started = false;
    run_loop(cfg, trace, false, &mut |cx, i, op, _before, _want, got, _snaps| {
        let shape = cx.shape.clone();
        let b = &cx.built[0];
        let lowers = b.lower_layer_nodes();
        // direct lower layers only for deep snapshots (roots of layers with index >= 1)
        let layer_roots: Vec<u16> = b.nodes.iter().filter(|n| n.layer_index.map(|x| x >= 1).unwrap_or(false) && b.nodes[n.parent.unwrap() as usize].kind == "ovl").map(|n| n.id).collect();
        let uni: BTreeSet<String> = BTreeSet::new();
        let take = |id: u16| -> (u16, u64, Vec<String>) {
            let s = b.ctl.quiet(|| snapshot(&b.node(id).root, &uni, false, false));
            let (h, lines) = deep_hash(&s);
            (id, h, lines)
        };
        // layers that are sub-directories of a shared instance: the part of the shared
        // filesystem below the layer directory
        let take_prefix = |id: u16, pfx: &str| -> (u16, u64, Vec<String>) {
            let s = b.ctl.quiet(|| snapshot(&b.node(id).root, &uni, false, false));
            let (_, lines) = deep_hash(&s);
            let lines: Vec<String> = lines.into_iter().filter(|l| l.starts_with(&format!("{}/", pfx)) || l.starts_with(&format!("{} ", pfx))).collect();
            let h = lines.iter().fold(0u64, |h, l| crate::rng::mix(h, crate::rng::hash_str(l)));
            (id, h, lines)
        };
        let prefixes = b.lower_layer_prefixes();
        // failing calls alike: arm / disarm the injected failure around its operation
        if let Some(plan) = &cx.cfg.fault {
            let ctl = cx.built[0].ctl.clone();
            if i == plan.op_index {
                let mut f = ctl.fault.lock().unwrap();
                f.armed = true;
                f.counter = 0;
                f.tripped = false;
                f.fail_at = Some(plan.k);
                f.sticky = plan.sticky;
                f.kind = io_kind(&plan.kind);
                f.nodes = plan.nodes;
                drop(f);
                ctl.fault_on.store(true, std::sync::atomic::Ordering::SeqCst);
            } else if i == plan.op_index + 1 {
                ctl.fault.lock().unwrap().armed = false;
            }
        }
        // the simulator's own snapshot after every step consists of pure observers: a mutating
        // call issued while it ran is an observer that mutates (e.g. housekeeping in a listing)
        let offence = cx.built[0].ctl.quiet_offence.lock().unwrap().take();
        if let Some(r) = offence {
            let key = format!("C08|{}|observer-mutates|{}|during=snapshot", shape, r.method);
            let detail = format!("after step {} {:?}: the pure observers of the snapshot (exists, metadata, read_dir, open_file+read, walk_dir) issued the mutating call {}('{}') to node {}", i, op, r.method, r.path, r.node);
            cx.violate(i, key, detail);
            return true;
        }
        if !started {
            started = true;
            lower_before = layer_roots.iter().map(|id| take(*id)).chain(prefixes.iter().map(|(id, p)| take_prefix(*id, p))).collect();
            b.ctl.take_log();
            b.ctl.set_rec(true);
            b.ctl.watch_quiet.store(true, std::sync::atomic::Ordering::SeqCst);
            return false;
        }
        b.ctl.set_rec(false);
        let log = b.ctl.take_log();
        cx.out.add("probe.c08.calls_recorded", log.len() as u64);
        // (1) no mutating call on any lower layer
        for r in &log {
            if !r.mutating {
                continue;
            }
            let fastpath = matches!(r.method, "copy_file" | "move_file" | "move_dir");
            if fastpath && !r.ok {
                continue;
            }
            let (mp, mp2) = crate::stack::Built::mutated_paths(r.method, &r.path, r.path2.as_deref());
            if b.touches_lower(r.node, mp, mp2) {
                cx.out.count("probe.c08.lower_mutation_seen");
                let kind = b.node(r.node).kind;
                let key = format!("C08|{}|lower-layer-mutating-call|{}|during={}", shape, r.method, op.kind());
                let detail = format!("step {} {:?}: {}('{}') was issued to node {} ({}), which belongs to a lower layer", i, op, r.method, r.path, r.node, kind);
                cx.violate(i, key, detail);
                return true;
            }
            if op.is_observer() {
                let key = format!("C08|{}|observer-mutates|{}|during={}", shape, r.method, op.kind());
                let detail = format!("step {} pure observer {:?} issued the mutating call {}('{}') to node {}", i, op, r.method, r.path, r.node);
                cx.violate(i, key, detail);
                return true;
            }
        }
        if log.iter().any(|r| !r.mutating && b.touches_lower(r.node, &r.path, None)) {
            cx.out.count("probe.c08.lower_layer_read");
        }
        // (2) deep snapshots of lower layers unchanged
        let after: Vec<(u16, u64, Vec<String>)> = layer_roots.iter().map(|id| take(*id)).chain(prefixes.iter().map(|(id, p)| take_prefix(*id, p))).collect();
        for (bef, aft) in lower_before.iter().zip(after.iter()) {
            if bef.1 != aft.1 {
                let diff: Vec<&String> = aft.2.iter().filter(|l| !bef.2.contains(l)).chain(bef.2.iter().filter(|l| !aft.2.contains(l))).take(4).collect();
                let key = format!("C08|{}|lower-layer-changed|during={}", shape, op.kind());
                cx.violate(i, key, format!("step {} {:?} (result {}): lower layer node {} changed: {:?}", i, op, got.class(), bef.0, diff));
                return true;
            }
        }
        lower_before = after;
        cx.built[0].ctl.set_rec(true);
        false
    })
}
