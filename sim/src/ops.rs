//! Executing operations against the real library through the public path API.

use crate::model::seek_from;
use crate::types::*;
use std::collections::BTreeMap;
use std::io::{Read, Seek, Write};
use std::panic::{catch_unwind, AssertUnwindSafe};
use std::time::{Duration, SystemTime, UNIX_EPOCH};
use vfs::error::VfsErrorKind;
use vfs::{SeekAndRead, SeekAndWrite, VfsError, VfsFileType, VfsMetadata, VfsPath};

pub fn classify(e: &VfsError) -> ErrClass {
    match e.kind() {
        VfsErrorKind::FileNotFound => ErrClass::NotFound,
        VfsErrorKind::FileExists => ErrClass::FileExists,
        VfsErrorKind::DirectoryExists => ErrClass::DirExists,
        VfsErrorKind::InvalidPath => ErrClass::InvalidPath,
        VfsErrorKind::NotSupported => ErrClass::NotSupported,
        VfsErrorKind::Other(_) => ErrClass::Other,
        _ => ErrClass::Io,
    }
}

pub fn err_info(e: &VfsError) -> ErrInfo {
    ErrInfo { class: classify(e), path: e.path().clone(), display: e.to_string(), io_only: false }
}

pub fn io_err_info(e: &std::io::Error) -> ErrInfo {
    ErrInfo {
        class: if e.kind() == std::io::ErrorKind::NotFound { ErrClass::NotFound } else { ErrClass::Io },
        path: String::new(),
        display: e.to_string(),
        io_only: true,
    }
}

pub fn to_nanos(t: SystemTime) -> i128 {
    match t.duration_since(UNIX_EPOCH) {
        Ok(d) => d.as_nanos() as i128,
        Err(e) => -(e.duration().as_nanos() as i128),
    }
}

pub fn from_parts(secs: i64, nanos: u32) -> SystemTime {
    if secs >= 0 {
        UNIX_EPOCH + Duration::new(secs as u64, nanos)
    } else {
        UNIX_EPOCH - Duration::new((-secs) as u64, 0) + Duration::new(0, nanos)
    }
}

pub fn meta_out(m: &VfsMetadata) -> MetaOut {
    MetaOut {
        dir: m.file_type == VfsFileType::Directory,
        len: m.len,
        times: [m.created.map(to_nanos), m.modified.map(to_nanos), m.accessed.map(to_nanos)],
    }
}

pub enum Slot {
    R(Box<dyn SeekAndRead + Send>),
    W(Box<dyn SeekAndWrite + Send>),
}

pub struct Exec {
    pub roots: Vec<VfsPath>,
    pub slots: BTreeMap<u8, Slot>,
    /// physical directories per fs index (for environment faults)
    pub phys_dirs: Vec<Option<std::path::PathBuf>>,
    /// HWrite issues exactly one write call (C14) instead of write_all semantics
    pub single_write: bool,
    /// HRead keeps reading until the buffer is full or EOF (short reads are legal; C15 compares data)
    pub fill_reads: bool,
    /// path values yielded by listings and walks, by (fs, path text) - see KEEP_PATHS
    pub kept: BTreeMap<(u8, String), VfsPath>,
}

thread_local! {
    /// per-run executor modes (set by `set_run_modes` from the run's `extra` map):
    /// IO_STYLE 1 = handle reads/writes use the vectored calls; KEEP_PATHS = path values yielded by
    /// read_dir / walk_dir are kept and used as receivers instead of freshly joined ones
    pub static IO_STYLE: std::cell::Cell<u8> = const { std::cell::Cell::new(0) };
    pub static KEEP_PATHS: std::cell::Cell<bool> = const { std::cell::Cell::new(false) };
    static IO_CALLS: std::cell::Cell<u32> = const { std::cell::Cell::new(0) };
}

/// in the vectored style every other handle call is vectored (plain and vectored calls mix on
/// one handle); a pure function of the run's call sequence
pub fn vectored_now() -> bool {
    if IO_STYLE.with(|c| c.get()) != 1 {
        return false;
    }
    IO_CALLS.with(|c| {
        c.set(c.get().wrapping_add(1));
        c.get() % 2 == 1
    })
}

pub fn set_run_modes(extra: &BTreeMap<String, String>) {
    IO_STYLE.with(|c| c.set(extra.get("io_style").and_then(|v| v.parse().ok()).unwrap_or(0)));
    KEEP_PATHS.with(|c| c.set(extra.get("keep_paths").map(|v| v == "1").unwrap_or(false)));
    IO_CALLS.with(|c| c.set(0));
    crate::observe::clear_kept_snap();
}

/// one vectored read into a buffer of `buf.len()` bytes split into two slices
pub fn read_vectored_once(h: &mut dyn Read, buf: &mut [u8]) -> std::io::Result<usize> {
    let mid = buf.len() / 3;
    let (a, b) = buf.split_at_mut(mid);
    let mut sl = [std::io::IoSliceMut::new(a), std::io::IoSliceMut::new(b)];
    h.read_vectored(&mut sl)
}

/// one vectored write of `b` as three slices (the middle one empty)
pub fn write_vectored_once(h: &mut dyn Write, b: &[u8]) -> std::io::Result<usize> {
    let mid = b.len() / 3;
    let sl = [std::io::IoSlice::new(&b[..mid]), std::io::IoSlice::new(&[]), std::io::IoSlice::new(&b[mid..])];
    h.write_vectored(&sl)
}

pub fn resolve(root: &VfsPath, s: &str) -> Result<VfsPath, VfsError> {
    if s.is_empty() {
        Ok(root.clone())
    } else if s.contains(crate::model::JOIN_SEP) {
        // successive joins: the later arguments are resolved against a NON-root base
        let mut cur = root.clone();
        for seg in s.split(crate::model::JOIN_SEP) {
            if !seg.is_empty() {
                cur = cur.join(seg)?;
            }
        }
        Ok(cur)
    } else {
        root.join(s)
    }
}

/// No generator emits copy_dir/move_dir into the source's own subtree (documented
/// non-termination). If the LIBRARY resolves the two path expressions to such a pair anyway (a
/// broken join), the call is not made - it would not return - and the step fails instead.
pub fn own_subtree_guard(pa: &P, pb: &P, a: &str, b: &str) -> Result<(), ErrInfo> {
    let generated_inside = match (crate::model::canon(&pa.s), crate::model::canon(&pb.s)) {
        (Ok(ca), Ok(cb)) => pa.fs == pb.fs && (crate::model::is_under(&cb, &ca) || (ca.is_empty() && !cb.is_empty())),
        _ => true,
    };
    if !generated_inside && pa.fs == pb.fs && (b.starts_with(&format!("{}/", a)) || (a.is_empty() && !b.is_empty())) {
        return Err(ErrInfo { class: ErrClass::Other, path: b.to_string(), display: format!("SIMULATOR-GUARD: the library resolved the destination to '{}', inside the source '{}' - call not made", b, a), io_only: false });
    }
    Ok(())
}

fn panic_msg(e: Box<dyn std::any::Any + Send>) -> String {
    if let Some(s) = e.downcast_ref::<&str>() {
        s.to_string()
    } else if let Some(s) = e.downcast_ref::<String>() {
        s.clone()
    } else {
        "non-string panic".into()
    }
}

/// read a handle to its end with the given buffer size; tolerates EINTR (legal)
pub fn drain(h: &mut dyn Read, buf_size: usize) -> std::io::Result<Vec<u8>> {
    let mut out = vec![];
    let mut buf = vec![0u8; buf_size.max(1)];
    loop {
        match h.read(&mut buf) {
            Ok(0) => return Ok(out),
            Ok(n) => {
                if n > buf.len() {
                    return Err(std::io::Error::new(std::io::ErrorKind::Other, "read returned more than the buffer holds"));
                }
                out.extend_from_slice(&buf[..n]);
                if out.len() > (64 << 20) {
                    return Err(std::io::Error::new(std::io::ErrorKind::Other, "read does not terminate (64 MiB)"));
                }
            }
            Err(e) if e.kind() == std::io::ErrorKind::Interrupted => continue,
            Err(e) => return Err(e),
        }
    }
}

fn write_all_counted(h: &mut dyn Write, mut b: &[u8]) -> std::io::Result<u64> {
    let mut total = 0u64;
    while !b.is_empty() {
        let r = if vectored_now() { write_vectored_once(h, b) } else { h.write(b) };
        match r {
            Ok(0) => return Err(std::io::Error::new(std::io::ErrorKind::WriteZero, "write returned 0")),
            Ok(n) => {
                if n > b.len() {
                    return Err(std::io::Error::new(std::io::ErrorKind::Other, "write returned more than given"));
                }
                total += n as u64;
                b = &b[n..];
            }
            Err(e) if e.kind() == std::io::ErrorKind::Interrupted => continue,
            Err(e) => return Err(e),
        }
    }
    Ok(total)
}

impl Exec {
    pub fn new(roots: Vec<VfsPath>) -> Exec {
        let n = roots.len();
        Exec { roots, slots: BTreeMap::new(), phys_dirs: vec![None; n], single_write: false, fill_reads: false, kept: BTreeMap::new() }
    }

    fn path(&self, p: &P) -> Result<VfsPath, VfsError> {
        let vp = resolve(&self.roots[p.fs as usize], &p.s)?;
        if !self.kept.is_empty() {
            if let Some(k) = self.kept.get(&(p.fs, vp.as_str().to_string())) {
                // an equal path value that a listing or walk handed out earlier
                if *k == vp {
                    return Ok(k.clone());
                }
            }
        }
        Ok(vp)
    }

    fn keep(&mut self, fs: u8, c: &VfsPath) {
        if KEEP_PATHS.with(|k| k.get()) && self.kept.len() < 256 {
            self.kept.insert((fs, c.as_str().to_string()), c.clone());
        }
    }

    pub fn exec(&mut self, op: &Op) -> Res {
        let r = catch_unwind(AssertUnwindSafe(|| self.exec_inner(op)));
        match r {
            Ok(Ok(o)) => Res::Ok(o),
            Ok(Err(e)) => Res::Err(e),
            Err(p) => Res::Panic(panic_msg(p)),
        }
    }

    fn exec_inner(&mut self, op: &Op) -> Result<Out, ErrInfo> {
        let v = |e: VfsError| err_info(&e);
        match op {
            Op::Exists(p) => Ok(Out::Bool(self.path(p).map_err(v)?.exists().map_err(v)?)),
            Op::IsFile(p) => Ok(Out::Bool(self.path(p).map_err(v)?.is_file().map_err(v)?)),
            Op::IsDir(p) => Ok(Out::Bool(self.path(p).map_err(v)?.is_dir().map_err(v)?)),
            Op::Metadata(p) => {
                let m = self.path(p).map_err(v)?.metadata().map_err(v)?;
                Ok(Out::Meta(meta_out(&m)))
            }
            Op::ReadDir(p) => {
                let mut it = self.path(p).map_err(v)?.read_dir().map_err(v)?;
                let _ = it.size_hint();
                let mut names = vec![];
                while let Some(c) = it.next() {
                    names.push(c.as_str().to_string());
                    self.keep(p.fs, &c);
                }
                // a finished iterator stays a legal value: asking it again, for its size hint, or
                // extending a collection from it must not panic (items are not judged here)
                let _ = it.size_hint();
                let _ = it.next();
                let _ = it.size_hint();
                let mut rest: std::collections::HashSet<String> = std::collections::HashSet::new();
                rest.extend(it.by_ref().take(4).map(|c| c.as_str().to_string()));
                let mut rest2: std::collections::HashSet<String> = std::collections::HashSet::new();
                rest2.extend(it.map(|c| c.as_str().to_string()).take(4));
                Ok(Out::Names(names))
            }
            Op::ReadFile(p, buf) => {
                let mut h = self.path(p).map_err(v)?.open_file().map_err(v)?;
                let b = drain(&mut *h, *buf).map_err(|e| io_err_info(&e))?;
                Ok(Out::Bytes(b))
            }
            Op::ReadToString(p) => Ok(Out::Str(self.path(p).map_err(v)?.read_to_string().map_err(v)?)),
            Op::WalkDir(p) => {
                let it = self.path(p).map_err(v)?.walk_dir().map_err(v)?;
                let mut items = vec![];
                for x in it {
                    match x {
                        Ok(c) => {
                            items.push(Ok(c.as_str().to_string()));
                            self.keep(p.fs, &c);
                        }
                        Err(e) => items.push(Err(err_info(&e))),
                    }
                    if items.len() > 100_000 {
                        items.push(Err(ErrInfo {
                            class: ErrClass::Other,
                            path: String::new(),
                            display: "walk does not terminate".into(),
                            io_only: true,
                        }));
                        break;
                    }
                }
                Ok(Out::Walk(items))
            }
            Op::WalkAfter { p, muts, after } => {
                let mut it = self.path(p).map_err(v)?.walk_dir().map_err(v)?;
                let mut items = vec![];
                for _ in 0..*after {
                    match it.next() {
                        Some(Ok(c)) => items.push(Ok(c.as_str().to_string())),
                        Some(Err(e)) => items.push(Err(err_info(&e))),
                        None => break,
                    }
                }
                for m in muts {
                    let _ = self.exec_inner(m);
                }
                for x in it {
                    match x {
                        Ok(c) => items.push(Ok(c.as_str().to_string())),
                        Err(e) => items.push(Err(err_info(&e))),
                    }
                    if items.len() > 10_000 {
                        items.push(Err(ErrInfo { class: ErrClass::Other, path: String::new(), display: "walk does not terminate".into(), io_only: true }));
                        break;
                    }
                }
                Ok(Out::Walk(items))
            }
            Op::CreateDir(p) => self.path(p).map_err(v)?.create_dir().map(|_| Out::Unit).map_err(v),
            Op::CreateDirAll(p) => self.path(p).map_err(v)?.create_dir_all().map(|_| Out::Unit).map_err(v),
            Op::RemoveFile(p) => self.path(p).map_err(v)?.remove_file().map(|_| Out::Unit).map_err(v),
            Op::RemoveDir(p) => self.path(p).map_err(v)?.remove_dir().map(|_| Out::Unit).map_err(v),
            Op::RemoveDirAll(p) => self.path(p).map_err(v)?.remove_dir_all().map(|_| Out::Unit).map_err(v),
            Op::Write { p, append, script } => {
                let vp = self.path(p).map_err(v)?;
                let mut h = if *append { vp.append_file() } else { vp.create_file() }.map_err(v)?;
                let mut steps = vec![];
                for s in script {
                    let r = match s {
                        WStep::Write(pl) => write_all_counted(&mut *h, &pl.bytes()),
                        WStep::Seek(w, off) => h.seek(seek_from(*w, *off)),
                        WStep::Flush => h.flush().map(|_| 0),
                    };
                    steps.push(r.map_err(|e| io_err_info(&e)));
                }
                drop(h);
                Ok(Out::Session(steps))
            }
            Op::CopyFile(a, b) => {
                let (a, b) = (self.path(a).map_err(v)?, self.path(b).map_err(v)?);
                a.copy_file(&b).map(|_| Out::Unit).map_err(v)
            }
            Op::MoveFile(a, b) => {
                let (a, b) = (self.path(a).map_err(v)?, self.path(b).map_err(v)?);
                a.move_file(&b).map(|_| Out::Unit).map_err(v)
            }
            Op::CopyDir(pa, pb) => {
                let (a, b) = (self.path(pa).map_err(v)?, self.path(pb).map_err(v)?);
                own_subtree_guard(pa, pb, a.as_str(), b.as_str())?;
                a.copy_dir(&b).map(Out::Count).map_err(v)
            }
            Op::MoveDir(pa, pb) => {
                let (a, b) = (self.path(pa).map_err(v)?, self.path(pb).map_err(v)?);
                own_subtree_guard(pa, pb, a.as_str(), b.as_str())?;
                a.move_dir(&b).map(|_| Out::Unit).map_err(v)
            }
            Op::SetTime(p, f, secs, nanos) => {
                let vp = self.path(p).map_err(v)?;
                let t = from_parts(*secs, *nanos);
                match f {
                    TField::Created => vp.set_creation_time(t),
                    TField::Modified => vp.set_modification_time(t),
                    TField::Accessed => vp.set_access_time(t),
                }
                .map(|_| Out::Unit)
                .map_err(v)
            }
            Op::OpenRead(p, slot) => {
                let h = self.path(p).map_err(v)?.open_file().map_err(v)?;
                self.slots.insert(*slot, Slot::R(h));
                Ok(Out::Unit)
            }
            Op::OpenWrite { p, append, slot } => {
                let vp = self.path(p).map_err(v)?;
                let h = if *append { vp.append_file() } else { vp.create_file() }.map_err(v)?;
                self.slots.insert(*slot, Slot::W(h));
                Ok(Out::Unit)
            }
            Op::HRead(slot, n) if read_exact_len(*n).is_some() => match self.slots.get_mut(slot) {
                Some(Slot::R(h)) => {
                    let mut buf = vec![0u8; read_exact_len(*n).unwrap()];
                    match h.read_exact(&mut buf) {
                        Ok(()) => Ok(Out::Read(buf)),
                        Err(e) => {
                            let _ = h.seek(std::io::SeekFrom::End(0));
                            Err(io_err_info(&e))
                        }
                    }
                }
                _ => Ok(Out::Unit),
            },
            Op::HRead(slot, n) if *n == READ_TO_END => match self.slots.get_mut(slot) {
                Some(Slot::R(h)) => {
                    let mut buf = Vec::new();
                    h.read_to_end(&mut buf).map_err(|e| io_err_info(&e))?;
                    Ok(Out::Read(buf))
                }
                _ => Ok(Out::Unit),
            },
            // (in the vectored style a backend without its own read_vectored fills only the first
            // slice - a legal short read - so the buffer is always filled up before values are compared)
            Op::HRead(slot, n) if (self.fill_reads || IO_STYLE.with(|c| c.get()) == 1) && *n > 0 => match self.slots.get_mut(slot) {
                Some(Slot::R(h)) => {
                    let mut buf = vec![0u8; *n];
                    let mut got = 0;
                    while got < *n {
                        let r = if vectored_now() { read_vectored_once(&mut **h, &mut buf[got..]) } else { h.read(&mut buf[got..]) };
                        match r {
                            Ok(0) => break,
                            Ok(k) => got += k.min(*n - got),
                            Err(e) if e.kind() == std::io::ErrorKind::Interrupted => continue,
                            Err(e) => return Err(io_err_info(&e)),
                        }
                    }
                    buf.truncate(got);
                    Ok(Out::Read(buf))
                }
                _ => Ok(Out::Unit),
            },
            Op::HRead(slot, n) => match self.slots.get_mut(slot) {
                Some(Slot::R(h)) => {
                    let mut buf = vec![0u8; *n];
                    let k = loop {
                        let r = if vectored_now() { read_vectored_once(&mut **h, &mut buf) } else { h.read(&mut buf) };
                        match r {
                            Err(e) if e.kind() == std::io::ErrorKind::Interrupted => continue,
                            other => break other,
                        }
                    }
                    .map_err(|e| io_err_info(&e))?;
                    if k > *n {
                        return Err(ErrInfo {
                            class: ErrClass::Other,
                            path: String::new(),
                            display: format!("read returned {} for a buffer of {}", k, n),
                            io_only: true,
                        });
                    }
                    buf.truncate(k);
                    Ok(Out::Read(buf))
                }
                _ => Ok(Out::Unit),
            },
            Op::HSeek(slot, w, off) => match self.slots.get_mut(slot) {
                Some(Slot::R(h)) => h.seek(seek_from(*w, *off)).map(Out::Pos).map_err(|e| io_err_info(&e)),
                Some(Slot::W(h)) => h.seek(seek_from(*w, *off)).map(Out::Pos).map_err(|e| io_err_info(&e)),
                None => Ok(Out::Unit),
            },
            Op::HWrite(slot, pl) if !self.single_write => match self.slots.get_mut(slot) {
                Some(Slot::W(h)) => {
                    write_all_counted(&mut **h, &pl.bytes()).map(|n| Out::Num(n as usize)).map_err(|e| io_err_info(&e))
                }
                _ => Ok(Out::Unit),
            },
            Op::HWrite(slot, pl) => match self.slots.get_mut(slot) {
                Some(Slot::W(h)) => {
                    let b = pl.bytes();
                    let r = loop {
                        let r = if vectored_now() { write_vectored_once(&mut **h, &b) } else { h.write(&b) };
                        match r {
                            Err(e) if e.kind() == std::io::ErrorKind::Interrupted => continue,
                            other => break other,
                        }
                    };
                    r.map(Out::Num).map_err(|e| io_err_info(&e))
                }
                _ => Ok(Out::Unit),
            },
            Op::HFlush(slot) => match self.slots.get_mut(slot) {
                Some(Slot::W(h)) => h.flush().map(|_| Out::Unit).map_err(|e| io_err_info(&e)),
                _ => Ok(Out::Unit),
            },
            Op::HDrop(slot) => {
                self.slots.remove(slot);
                Ok(Out::Unit)
            }
            Op::EnvNonUtf8(p) | Op::EnvDanglingSymlink(p) | Op::EnvRemoveBehind(p) | Op::EnvSpecial(p, _) => {
                self.env_fault(op, p);
                Ok(Out::Unit)
            }
            // performed by the run loop (it owns the stack); here a no-op
            Op::Reopen => Ok(Out::Unit),
        }
    }

    /// Environment faults: change the physical directory behind the library's back.
    fn env_fault(&self, op: &Op, p: &P) {
        use std::os::unix::ffi::OsStrExt;
        let dir = match self.phys_dirs.get(p.fs as usize).and_then(|d| d.clone()) {
            Some(d) => d,
            None => return,
        };
        let c = match crate::model::canon(&p.s) {
            Ok(c) => c,
            Err(_) => return,
        };
        let target = dir.join(c.trim_start_matches('/'));
        match op {
            Op::EnvNonUtf8(_) => {
                // a sibling entry with a non-UTF-8 name inside the directory `target` (or its parent)
                let d = if target.is_dir() { target } else { target.parent().unwrap().to_path_buf() };
                let name = std::ffi::OsStr::from_bytes(b"bad\xFFname");
                let _ = std::fs::write(d.join(name), b"x");
            }
            Op::EnvDanglingSymlink(_) => {
                if !target.exists() && target.parent().map(|x| x.is_dir()).unwrap_or(false) {
                    let _ = std::os::unix::fs::symlink("/nonexistent/verif-dangling", &target);
                }
            }
            Op::EnvSpecial(_, kind) if kind % 4 == 3 => {
                // the physical root directory itself disappears (unmounted, deleted by someone else)
                let _ = std::fs::remove_dir_all(&dir);
            }
            Op::EnvSpecial(_, kind) => {
                if !target.exists() && std::fs::symlink_metadata(&target).is_err() && target.parent().map(|x| x.is_dir()).unwrap_or(false) {
                    match kind % 4 {
                        0 => {
                            // a unix socket file (stays behind when the listener is dropped)
                            let _ = std::os::unix::net::UnixListener::bind(&target);
                        }
                        1 => {
                            let _ = std::os::unix::fs::symlink(&target, &target);
                        }
                        _ => {
                            let sib = target.parent().unwrap().join("verif-sibling-target");
                            let _ = std::fs::write(&sib, b"sibling");
                            let _ = std::os::unix::fs::symlink("verif-sibling-target", &target);
                        }
                    }
                }
            }
            Op::EnvRemoveBehind(_) => {
                if target != dir {
                    if target.is_dir() {
                        let _ = std::fs::remove_dir_all(&target);
                    } else {
                        let _ = std::fs::remove_file(&target);
                    }
                }
            }
            _ => {}
        }
    }
}
