//! Per-property configuration generators and run dispatch.

use crate::gen::*;
use crate::model::*;
use crate::rng::{mix, Rng};
use crate::seq::*;
use crate::stack::Spec;
use crate::types::*;
use std::collections::BTreeMap;

pub const ALL_PROPS: &[&str] = &[
    "C01", "C02", "C03", "C04", "C05", "C07", "C08", "C09", "C10", "C11", "C12", "C13", "C14", "C15", "C16", "C17", "C19", "C20",
];

pub fn run_seed(base: u64, prop: &str, i: u64) -> u64 {
    mix(mix(base, crate::rng::hash_str(prop)), i)
}

pub const W_DEFAULT: [u32; 19] = [3, 3, 1, 1, 4, 4, 2, 2, 10, 5, 7, 7, 4, 10, 7, 4, 4, 3, 3];

/// swarm: randomly drop some op kinds and re-weight the others
pub fn swarm_weights(rng: &mut Rng, base: &[u32; 19]) -> [u32; 19] {
    let mut w = *base;
    if rng.pct(70) {
        for x in w.iter_mut() {
            match rng.below(6) {
                0 => *x = 0,
                1 => *x *= 3,
                _ => {}
            }
        }
    }
    // never drop all creators
    if w[8] + w[9] + w[13] == 0 {
        w[8] = 10;
        w[13] = 10;
    }
    w
}

/// Never generated for any property: removal / overwrite / move of the root itself and
/// copy_dir / move_dir into the source's own subtree (documented non-termination).
pub fn excluded_everywhere(op: &Op) -> bool {
    let root = |p: &P| canon(&p.s).map(|c| c.is_empty()).unwrap_or(false);
    match op {
        Op::RemoveFile(p) | Op::RemoveDir(p) | Op::RemoveDirAll(p) | Op::Write { p, .. } => root(p),
        Op::MoveFile(s, d) | Op::MoveDir(s, d) | Op::CopyDir(s, d) | Op::CopyFile(s, d) => {
            if root(s) && !matches!(op, Op::CopyFile(..)) {
                return true;
            }
            if matches!(op, Op::CopyDir(..) | Op::MoveDir(..)) && s.fs == d.fs {
                if let (Ok(cs), Ok(cd)) = (canon(&s.s), canon(&d.s)) {
                    return is_under(&cd, &cs) || cs.is_empty();
                }
            }
            false
        }
        _ => false,
    }
}

pub fn gen_history(g: &mut Gen, world: &mut World, n: usize, weights: &[u32; 19]) -> Vec<Op> {
    let mut ops = vec![];
    for _ in 0..n {
        let mut chosen = None;
        for _ in 0..12 {
            let op = g.gen_op(world, weights);
            if excluded_everywhere(&op) {
                continue;
            }
            if g.domain == Domain::Contract {
                // only combinations the properties specify
                let mut probe = world.clone();
                if matches!(probe.apply(&op), Want::Unspec) {
                    continue;
                }
                if g.avoid_known && g.rng.pct(90) && known_trigger(&op, world) {
                    continue;
                }
            }
            chosen = Some(op);
            break;
        }
        if let Some(op) = chosen {
            world.apply(&op);
            ops.push(op);
        }
    }
    ops
}

/// Preconditions of listed known findings (DESIGN 3.10): avoided in 90 % of the draws so a known
/// finding does not shadow the rest of a run, sought in the rest so it is re-confirmed.
pub fn known_trigger(op: &Op, w: &World) -> bool {
    match op {
        // OverlayFS::remove_file on an empty directory (pinned by an existing test)
        Op::RemoveFile(p) => match canon(&p.s) {
            Ok(c) => {
                let m = &w.m[p.fs as usize];
                m.is_dir(&c) && m.children(&c).is_empty()
            }
            Err(_) => false,
        },
        _ => false,
    }
}

fn base_cfg(prop: &str, mode: &str, seed: u64, g: &mut Gen, specs: Vec<Spec>, ops: Vec<Op>) -> RunCfg {
    RunCfg {
        property: prop.into(),
        mode: mode.into(),
        seed,
        specs,
        order_seed: g.rng.next_u64(),
        permute: g.rng.pct(80),
        ops,
        perturb: [0, 0, 0],
        fault: None,
        extra: BTreeMap::new(),
    }
}

/// any stack of the grammar, optionally pre-populated
pub fn any_stack(g: &mut Gen, phys_pct: u32) -> Spec {
    let depth = g.rng.weighted(&[25, 35, 30, 10]);
    let mut spec = g.gen_spec(depth, phys_pct, 3);
    if g.rng.pct(60) {
        let view = g.gen_view(8);
        g.populate(&mut spec, &view, false);
    }
    g.add_beside(&mut spec);
    spec
}

/// an overlay on top, 1..max layers, pre-populated type-consistently
pub fn overlay_stack(g: &mut Gen, phys_pct: u32, min_layers: usize, max_layers: usize) -> Spec {
    if g.rng.pct(18) && max_layers >= 2 {
        // all layers are directories of one filesystem instance
        let n = g.rng.range(min_layers.max(2), max_layers);
        let mut spec = Spec::OvlSub { base: Box::new(g.leaf(phys_pct)), dirs: LAYER_DIRS.iter().take(n).map(|s| s.to_string()).collect() };
        if g.rng.pct(90) {
            let view = g.gen_view(10);
            g.populate(&mut spec, &view, false);
        }
        return spec;
    }
    let n = g.rng.range(min_layers, max_layers);
    let mut layers = vec![];
    for i in 0..n {
        let l = if i == 0 {
            if g.rng.pct(20) {
                Spec::Alt { inner: Box::new(g.leaf(phys_pct)), p: g.alt_p(true) }
            } else {
                g.leaf(phys_pct)
            }
        } else {
            match g.rng.weighted(&[60, 25, 15]) {
                0 => g.leaf(phys_pct),
                1 => Spec::Alt { inner: Box::new(g.leaf(phys_pct)), p: g.alt_p(true) },
                _ => {
                    let k = g.rng.range(1, 2);
                    Spec::Ovl { layers: (0..k).map(|_| g.leaf(phys_pct)).collect() }
                }
            }
        };
        layers.push(l);
    }
    let mut spec = Spec::Ovl { layers };
    if g.rng.pct(20) {
        spec = Spec::Alt { inner: Box::new(spec), p: g.alt_p(true) };
    }
    if g.rng.pct(90) {
        let view = g.gen_view(10);
        g.populate(&mut spec, &view, false);
    }
    g.add_beside(&mut spec);
    spec
}

pub fn phys_pct_for(rng: &mut Rng) -> u32 {
    // about a third of the runs contain a physical layer
    if rng.pct(33) {
        50
    } else {
        0
    }
}

pub fn gen_cfg(prop: &str, seed: u64) -> RunCfg {
    let mut g = Gen::new(seed);
    match prop {
        "C01" => {
            let pp = phys_pct_for(&mut g.rng);
            let spec = any_stack(&mut g, pp);
            let mut world = World { m: vec![spec.view()], w: Default::default() };
            g.avoid_known = spec.has_ovl();
            let n = g.rng.range(4, 40);
            let w = swarm_weights(&mut g.rng, &W_DEFAULT);
            let mut ops = vec![];
            if g.rng.pct(3) {
                ops.extend(deep_chain(&mut g, &mut world, 0));
            }
            for _ in 0..n {
                if g.rng.pct(5) {
                    ops.extend(flush_block(&mut g, &mut world, spec.has_phys()));
                } else {
                    ops.extend(gen_history(&mut g, &mut world, 1, &w));
                }
            }
            base_cfg(prop, "contract", seed, &mut g, vec![spec], ops)
        }
        "C09" => {
            if g.rng.pct(6) {
                // appending continues the lower layer's bytes - also when there are many of them
                g.size_profile = 2;
            }
            let pp = phys_pct_for(&mut g.rng);
            if pp == 0 && g.rng.pct(12) {
                // memory-only stacks have no limit on name lengths: two names of 253 bytes that
                // share their first 252 (the overlay derives marker names from them)
                g.names.push(format!("{}A", "N".repeat(252)));
                g.names.push(format!("{}B", "N".repeat(252)));
            }
            let spec = overlay_stack(&mut g, pp, 1, 4);
            let mut world = World { m: vec![spec.view()], w: Default::default() };
            g.avoid_known = spec.has_ovl();
            let n = g.rng.range(4, 30);
            // biased to the union/contract interactions: create over lower-only, remove, append
            let base: [u32; 19] = [2, 2, 1, 1, 4, 4, 1, 2, 14, 4, 9, 12, 4, 10, 10, 3, 3, 2, 2];
            let w = swarm_weights(&mut g.rng, &base);
            let mut ops = vec![];
            for _ in 0..n {
                if g.rng.pct(8) {
                    // an append/create handle that stays open: opening changes nothing (append) and
                    // every flush publishes the lower layer's bytes plus what was written
                    ops.extend(flush_block(&mut g, &mut world, spec.has_phys()));
                } else {
                    ops.extend(gen_history(&mut g, &mut world, 1, &w));
                }
            }
            base_cfg(prop, "contract", seed, &mut g, vec![spec], ops)
        }
        "C10" => {
            // names ending in "_wo" are NOT drawn: the marker of 'a' is '.whiteout/a_wo', which is
            // also where the markers of the children of a directory named 'a_wo' live - the
            // properties reserve such names for that reason (tried, and it alarms on the unchanged
            // tree by construction)
            let pp = phys_pct_for(&mut g.rng);
            if pp == 0 && g.rng.pct(12) {
                g.names.push(format!("{}A", "N".repeat(252)));
                g.names.push(format!("{}B", "N".repeat(252)));
            }
            let spec = overlay_stack(&mut g, pp, 2, 4);
            let mut world = World { m: vec![spec.view()], w: Default::default() };
            g.avoid_known = spec.has_ovl();
            let cycles = g.rng.range(1, 4);
            let mut ops = vec![];
            let removal: [u32; 19] = [1, 1, 0, 0, 2, 1, 0, 1, 0, 0, 14, 10, 12, 0, 0, 0, 2, 0, 2];
            let unrelated: [u32; 19] = [2, 2, 1, 1, 3, 3, 1, 2, 6, 3, 2, 2, 1, 6, 5, 3, 2, 2, 1];
            let recreate: [u32; 19] = [1, 1, 0, 0, 2, 2, 0, 1, 14, 6, 0, 0, 0, 14, 2, 3, 0, 2, 0];
            for _ in 0..cycles {
                let a = g.rng.range(1, 5);
                ops.extend(gen_history(&mut g, &mut world, a, &removal));
                let b = g.rng.range(0, 4);
                ops.extend(gen_history(&mut g, &mut world, b, &unrelated));
                let c = g.rng.range(1, 5);
                ops.extend(gen_history(&mut g, &mut world, c, &recreate));
            }
            let nn = spec.node_count();
            let mut cfg = base_cfg(prop, "contract", seed, &mut g, vec![spec], ops);
            // in a third of the runs one re-creation fails for an underlying reason: the deletion
            // must persist ("until re-created")
            let creations: Vec<usize> = cfg.ops.iter().enumerate().filter(|(_, o)| matches!(o, Op::CreateDir(_) | Op::Write { append: false, .. })).map(|(i, _)| i).collect();
            // ... or one removal meets a failing underlying call: if it still reports success, the
            // entry and everything inside it must be gone
            let removals: Vec<usize> = cfg.ops.iter().enumerate().filter(|(_, o)| matches!(o, Op::RemoveDir(_) | Op::RemoveFile(_) | Op::RemoveDirAll(_))).map(|(i, _)| i).collect();
            let creations = if !removals.is_empty() && (creations.is_empty() || g.rng.pct(40)) { removals } else { creations };
            if !creations.is_empty() && g.rng.pct(35) {
                let kinds = ["Other", "PermissionDenied", "StorageFull"];
                cfg.fault = Some(FaultPlan { op_index: creations[g.rng.below(creations.len())], k: g.rng.range(1, 14) as u64, sticky: false, kind: kinds[g.rng.below(3)].into(), nodes: if g.rng.pct(70) { u64::MAX } else { 1u64 << g.rng.below(nn) }, handles_only: false });
            }
            cfg
        }
        "C03" | "C05" if g.rng.pct(6) => {
            // the read-only embedded backend: observers (and refused mutators) over the fixture
            // and a few absent / almost-present paths
            let spec = Spec::Emb;
            let m = spec.view();
            let mut paths: Vec<String> = m.t.keys().cloned().collect();
            for extra in ["/a.tx", "/a.txt/x", "/sub/n.tx", "/sub/deep/er/e", "/zz", "/su"] {
                paths.push(extra.to_string());
            }
            let mut ops = vec![];
            for _ in 0..g.rng.range(4, 20) {
                let p = P::new(&paths[g.rng.below(paths.len())]);
                ops.push(match g.rng.below(9) {
                    0 => Op::Exists(p),
                    1 => Op::Metadata(p),
                    2 => Op::ReadDir(p),
                    3 => Op::ReadFile(p, 7),
                    4 => Op::WalkDir(p),
                    5 => Op::IsDir(p),
                    6 => Op::CreateDir(p),
                    7 => Op::RemoveFile(p),
                    _ => Op::ReadToString(p),
                });
            }
            base_cfg(prop, "unrestricted", seed, &mut g, vec![spec], ops)
        }
        "C03" | "C05" => {
            let pp = phys_pct_for(&mut g.rng);
            let spec = if g.rng.pct(50) { overlay_stack(&mut g, pp, 1, 3) } else { any_stack(&mut g, pp) };
            g.domain = Domain::Unrestricted;
            let mut world = World { m: vec![spec.view()], w: Default::default() };
            g.avoid_known = spec.has_ovl();
            let n = g.rng.range(4, 30);
            let w = swarm_weights(&mut g.rng, &W_DEFAULT);
            let mut ops = vec![];
            if g.rng.pct(3) {
                ops.extend(deep_chain(&mut g, &mut world, 0));
            }
            if spec.has_ovl() && g.rng.pct(25) {
                // wrong-typed removals of pre-populated non-empty directories first (they must fail
                // and change nothing, whichever layers hold the directory and its children)
                let dirs: Vec<String> = world.m[0].t.iter().filter(|(k, v)| !k.is_empty() && matches!(v, Node::Dir) && !world.m[0].children(k).is_empty()).map(|(k, _)| k.clone()).collect();
                for _ in 0..g.rng.range(1, 3) {
                    if !dirs.is_empty() {
                        let op = Op::RemoveFile(P::new(&dirs[g.rng.below(dirs.len())]));
                        if matches!(world.clone().apply(&op), Want::Err(_)) {
                            world.apply(&op);
                            ops.push(op);
                        }
                    }
                }
            }
            // C03 only: sometimes a second filesystem instance (transfers across instances take
            // other code paths than those inside one), and sometimes one underlying call of one
            // operation fails - a FAILED call must not leave an orphan either
            let mut specs = vec![spec.clone()];
            if prop == "C03" && g.rng.pct(12) {
                specs.push(g.leaf(30));
                g.nfs = 2;
                world.m.push(specs[1].view());
            }
            ops.extend(gen_history(&mut g, &mut world, n, &w));
            // with two filesystems: end with a transfer of a populated directory ACROSS them, and
            // usually let a read or write in the middle of that transfer fail
            let mut forced: Option<usize> = None;
            if specs.len() == 2 {
                let (src, dst) = if g.rng.pct(60) { (0usize, 1usize) } else { (1, 0) };
                let dirs: Vec<String> = world.m[src].t.iter().filter(|(k, v)| !k.is_empty() && matches!(v, Node::Dir) && world.m[src].t.iter().any(|(c, n)| is_under(c, k) && matches!(n, Node::File(b) if !b.is_empty()))).map(|(k, _)| k.clone()).collect();
                if !dirs.is_empty() {
                    let d = dirs[g.rng.below(dirs.len())].clone();
                    let dest = format!("/xfer{}", g.rng.below(100));
                    let op = if g.rng.pct(50) { Op::CopyDir(P::on(src as u8, &d), P::on(dst as u8, &dest)) } else { Op::MoveDir(P::on(src as u8, &d), P::on(dst as u8, &dest)) };
                    if matches!(world.clone().apply(&op), Want::Ok(_)) {
                        world.apply(&op);
                        ops.push(op);
                        if g.rng.pct(70) {
                            forced = Some(ops.len() - 1);
                        }
                    }
                }
            }
            let nn = spec.node_count();
            let mut cfg = base_cfg(prop, "unrestricted", seed, &mut g, specs, ops);
            if let Some(at) = forced {
                let kinds = ["Other", "PermissionDenied", "StorageFull"];
                cfg.fault = Some(FaultPlan { op_index: at, k: g.rng.range(1, 5) as u64, sticky: false, kind: kinds[g.rng.below(kinds.len())].into(), nodes: u64::MAX, handles_only: true });
            } else if prop == "C03" && g.rng.pct(25) && !cfg.ops.is_empty() {
                let kinds = ["Other", "PermissionDenied", "StorageFull"];
                let comp: Vec<usize> = cfg.ops.iter().enumerate().filter(|(_, o)| matches!(o, Op::CreateDirAll(_) | Op::RemoveDirAll(_) | Op::CopyDir(..) | Op::MoveDir(..) | Op::CopyFile(..) | Op::MoveFile(..) | Op::Write { .. })).map(|(i, _)| i).collect();
                let at = if !comp.is_empty() && g.rng.pct(70) { comp[g.rng.below(comp.len())] } else { g.rng.below(cfg.ops.len()) };
                let handles_only = g.rng.pct(35);
                cfg.fault = Some(FaultPlan { op_index: at, k: if handles_only { g.rng.range(1, 6) as u64 } else { g.rng.range(1, 30) as u64 }, sticky: g.rng.pct(20), kind: kinds[g.rng.below(kinds.len())].into(), nodes: if g.rng.pct(70) { u64::MAX } else { 1u64 << g.rng.below(nn) }, handles_only });
            }
            cfg
        }
        "C11" if g.rng.pct(7) => {
            // the read-only embedded backend as the SOURCE of copies into a writable filesystem
            let dst = g.leaf(40);
            let specs = vec![Spec::Emb, dst];
            let mut world = World { m: specs.iter().map(|s| s.view()).collect(), w: Default::default() };
            let srcs: Vec<String> = world.m[0].t.keys().cloned().collect();
            let mut ops = vec![];
            let mut n = 0;
            for _ in 0..g.rng.range(2, 8) {
                let s = srcs[g.rng.below(srcs.len())].clone();
                n += 1;
                let d = format!("/{}{}", g.name(), n);
                let op = if world.m[0].is_dir(&s) { Op::CopyDir(P::on(0, &s), P::on(1, &d)) } else { Op::CopyFile(P::on(0, &s), P::on(1, &d)) };
                if matches!(world.clone().apply(&op), Want::Unspec) {
                    continue;
                }
                world.apply(&op);
                ops.push(op);
                if g.rng.pct(40) {
                    ops.push(Op::WalkDir(P::on(1, "")));
                    world.apply(ops.last().unwrap());
                }
            }
            let mut cfg = base_cfg(prop, "contract", seed, &mut g, specs, ops);
            cfg.extra.insert("pair".into(), "embedded-source".into());
            cfg
        }
        "C11" => {
            // ordered pairs: same instance / two instances of one backend / two different stacks
            if g.rng.pct(10) {
                g.size_profile = 2;
            }
            let pp = phys_pct_for(&mut g.rng);
            let pair = g.rng.below(3);
            let s0 = if g.rng.pct(50) { g.leaf(pp) } else { any_stack(&mut g, pp) };
            let mut specs = vec![s0.clone()];
            match pair {
                0 => {}
                1 => {
                    let mut s1 = s0.clone();
                    strip_pre(&mut s1);
                    specs.push(s1)
                }
                _ => {
                    let s1 = if g.rng.pct(50) { g.leaf(50) } else { any_stack(&mut g, pp) };
                    specs.push(s1);
                }
            }
            g.nfs = specs.len();
            let mut world = World { m: specs.iter().map(|s| s.view()).collect(), w: Default::default() };
            g.avoid_known = specs.iter().any(|s| s.has_ovl());
            // grow source trees first, then transfer-heavy mix
            let grow: [u32; 19] = [0, 0, 0, 0, 0, 0, 0, 0, 10, 8, 0, 0, 0, 12, 2, 0, 0, 0, 0];
            let xfer: [u32; 19] = [1, 1, 0, 0, 2, 2, 1, 2, 3, 6, 2, 2, 8, 3, 2, 10, 10, 12, 12];
            let a = g.rng.range(3, 14);
            let mut ops = gen_history(&mut g, &mut world, a, &grow);
            if g.rng.pct(4) {
                ops.extend(deep_chain(&mut g, &mut world, 0));
            }
            let b = g.rng.range(3, 16);
            let w = swarm_weights(&mut g.rng, &xfer);
            ops.extend(gen_history(&mut g, &mut world, b, &w));
            let mut cfg = base_cfg(prop, "contract", seed, &mut g, specs, ops);
            cfg.extra.insert("pair".into(), ["same", "twin", "different"][pair].into());
            cfg
        }
        "C12" => {
            let pp = phys_pct_for(&mut g.rng);
            let spec = if g.rng.pct(60) { any_stack(&mut g, pp) } else { overlay_stack(&mut g, pp, 1, 3) };
            let mut world = World { m: vec![spec.view()], w: Default::default() };
            g.avoid_known = spec.has_ovl();
            let n = g.rng.range(4, 30);
            let w = swarm_weights(&mut g.rng, &W_DEFAULT);
            let mut ops = vec![];
            for _ in 0..n {
                let mut batch = gen_history(&mut g, &mut world, 1, &w);
                if let Some(op) = batch.pop() {
                    if g.rng.pct(8) {
                        // trailing-slash join argument: must be rejected as an invalid path
                        let variant = g.rng.below(4);
                        let bad = crate::mon_twin::map_op(
                            &op,
                            &|p: &P| P {
                                fs: p.fs,
                                s: match variant {
                                    // arguments made of slashes only, doubled trailing slashes
                                    0 => "//".to_string(),
                                    1 => "///".to_string(),
                                    2 => format!("{}//", if p.s.is_empty() { "x" } else { &p.s }),
                                    _ => format!("{}/", if p.s.is_empty() { "x" } else { &p.s }),
                                },
                            },
                            0,
                        );
                        ops.push(bad);
                    }
                    ops.push(op);
                }
                if g.rng.pct(8) {
                    let t = g.target_w(&world.m[0], &[(Tc::File, 40), (Tc::Dir, 30), (Tc::AbsentInDir, 30)]);
                    let f = *g.rng.pick(&[TField::Created, TField::Created, TField::Modified, TField::Accessed]);
                    ops.push(Op::SetTime(P::new(&t), f, g.rng.range(0, 2_000_000_000) as i64, 0));
                }
            }
            let nn = spec.node_count();
            let mut cfg = base_cfg(prop, "contract", seed, &mut g, vec![spec], ops);
            if g.rng.pct(35) && !cfg.ops.is_empty() {
                // every failing call: also those that fail because one underlying call failed
                let kinds = ["Other", "PermissionDenied", "StorageFull"];
                // bias towards composites and towards the end of the history (more state)
                let comp: Vec<usize> = cfg.ops.iter().enumerate().filter(|(_, o)| matches!(o, Op::CreateDirAll(_) | Op::RemoveDirAll(_) | Op::CopyDir(..) | Op::MoveDir(..) | Op::CopyFile(..) | Op::MoveFile(..) | Op::WalkDir(_) | Op::ReadToString(_))).map(|(i, _)| i).collect();
                let at = if !comp.is_empty() && g.rng.pct(60) { comp[g.rng.below(comp.len())] } else { g.rng.below(cfg.ops.len()) };
                cfg.fault = Some(FaultPlan { op_index: at, k: g.rng.range(1, 16) as u64, sticky: g.rng.pct(25), kind: kinds[g.rng.below(kinds.len())].into(), nodes: if g.rng.pct(60) { u64::MAX } else { 1u64 << g.rng.below(nn) }, handles_only: false });
            }
            cfg
        }
        "C02" => {
            g.size_profile = 1;
            if g.rng.pct(12) {
                // the longest component the host accepts (255 bytes): both backends take it
                g.names.push("M".repeat(255));
            }
            let specs = vec![Spec::Mem { pre: vec![] }, Spec::Phys { pre: vec![] }];
            let mut world = World { m: vec![Model::new(), Model::new()], w: Default::default() };
            let n = g.rng.range(4, 30);
            let w = swarm_weights(&mut g.rng, &W_DEFAULT);
            let mut ops = vec![];
            for _ in 0..n {
                ops.extend(gen_history(&mut g, &mut world, 1, &w));
                if g.rng.pct(15) {
                    ops.extend(reader_block(&mut g, &world.m[0], 0));
                }
            }
            base_cfg(prop, "twin", seed, &mut g, specs, ops)
        }
        "C07" => {
            let pp = phys_pct_for(&mut g.rng);
            let under = match g.rng.weighted(&[45, 35, 20]) {
                0 => g.leaf(pp),
                1 => {
                    let n = g.rng.range(1, 3);
                    Spec::Ovl { layers: (0..n).map(|_| g.leaf(pp)).collect() }
                }
                _ => Spec::Alt { inner: Box::new(g.leaf(pp)), p: g.alt_p(false) },
            };
            let mut spec = Spec::Alt { inner: Box::new(under), p: g.alt_p(true) };
            if g.rng.pct(85) {
                let view = g.gen_view(8);
                g.populate(&mut spec, &view, false);
            }
            g.add_beside(&mut spec);
            let inner = match &spec {
                Spec::Alt { inner, .. } => (**inner).clone(),
                _ => unreachable!(),
            };
            let mut world = World { m: vec![spec.view(), inner.view()], w: Default::default() };
            g.avoid_known = spec.has_ovl();
            let n = g.rng.range(4, 30);
            let w = swarm_weights(&mut g.rng, &W_DEFAULT);
            let ops0 = gen_history(&mut g, &mut world, n, &w);
            // second pass: hostile but equivalent path expressions
            let mut ops = vec![];
            for op in ops0 {
                if g.rng.pct(45) {
                    let names = g.names.clone();
                    let r = std::cell::RefCell::new(&mut g.rng);
                    ops.push(crate::mon_twin::map_op(&op, &|p: &P| P { fs: p.fs, s: hostile(&p.s, &mut r.borrow_mut(), &names) }, 0));
                } else {
                    ops.push(op);
                }
            }
            base_cfg(prop, "altroot", seed, &mut g, vec![spec, inner], ops)
        }
        "C08" => {
            let pp = phys_pct_for(&mut g.rng);
            let spec = overlay_stack(&mut g, pp, 2, 4);
            if g.rng.pct(30) {
                g.domain = Domain::Unrestricted;
            }
            let mut world = World { m: vec![spec.view()], w: Default::default() };
            g.avoid_known = true;
            let n = g.rng.range(4, 30);
            let w = swarm_weights(&mut g.rng, &W_DEFAULT);
            let mut ops = vec![];
            for _ in 0..n {
                ops.extend(gen_history(&mut g, &mut world, 1, &w));
                if g.rng.pct(12) {
                    let t = g.target_w(&world.m[0], &[(Tc::File, 50), (Tc::Dir, 30), (Tc::AbsentInDir, 20)]);
                    let f = *g.rng.pick(&[TField::Created, TField::Modified, TField::Accessed]);
                    ops.push(Op::SetTime(P::new(&t), f, g.rng.range(0, 2_000_000_000) as i64, g.rng.below(1_000_000_000) as u32));
                }
            }
            let nn = spec.node_count();
            let mut cfg = base_cfg(prop, "record", seed, &mut g, vec![spec], ops);
            if g.rng.pct(40) && !cfg.ops.is_empty() {
                // failing calls alike: an underlying call of one operation fails
                let kinds = ["Other", "PermissionDenied", "StorageFull"];
                cfg.fault = Some(FaultPlan {
                    op_index: g.rng.below(cfg.ops.len()),
                    k: g.rng.range(1, 25) as u64,
                    sticky: g.rng.pct(30),
                    kind: kinds[g.rng.below(kinds.len())].into(),
                    nodes: if g.rng.pct(60) { u64::MAX } else { 1u64 << g.rng.below(nn) },
                    handles_only: false,
                });
            }
            cfg
        }
        "C04" => {
            g.size_profile = 2;
            let pp = phys_pct_for(&mut g.rng);
            let spec = match g.rng.weighted(&[30, 35, 35]) {
                0 => g.leaf(pp),
                1 => any_stack(&mut g, pp),
                _ => overlay_stack(&mut g, pp, 1, 3),
            };
            let mut world = World { m: vec![spec.view()], w: Default::default() };
            g.avoid_known = spec.has_ovl();
            let base: [u32; 19] = [1, 4, 0, 0, 1, 10, 4, 0, 3, 2, 2, 1, 1, 14, 12, 6, 6, 2, 2];
            let w = swarm_weights(&mut g.rng, &base);
            let n = g.rng.range(3, 16);
            let mut ops = vec![];
            for _ in 0..n {
                if g.rng.pct(22) {
                    ops.extend(flush_block(&mut g, &mut world, spec.has_phys()));
                } else {
                    ops.extend(gen_history(&mut g, &mut world, 1, &w));
                }
            }
            let mut cfg = base_cfg(prop, "bytes", seed, &mut g, vec![spec], ops);
            if g.rng.pct(50) {
                cfg.perturb = [*g.rng.pick(&[0u32, 20, 50]), *g.rng.pick(&[0u32, 20, 50]), *g.rng.pick(&[0u32, 10, 30])];
            }
            cfg
        }
        "C14" => {
            g.size_profile = 1;
            let pp = phys_pct_for(&mut g.rng);
            let spec = match g.rng.weighted(&[40, 10, 25, 25]) {
                0 => g.leaf(pp),
                1 => Spec::Emb,
                2 => any_stack(&mut g, pp),
                _ => overlay_stack(&mut g, pp, 1, 3),
            };
            let mut spec = spec;
            if !matches!(spec, Spec::Emb) && spec.pre_total() == 0 && g.rng.pct(60) {
                // handles on files that exist in (several) layers from the start
                let view = g.gen_view(6);
                g.populate(&mut spec, &view, false);
            }
            let ops = handle_script(&mut g, &spec);
            let mut cfg = base_cfg(prop, "handles", seed, &mut g, vec![spec], ops);
            if g.rng.pct(40) {
                cfg.perturb = [*g.rng.pick(&[0u32, 30]), *g.rng.pick(&[0u32, 30]), *g.rng.pick(&[0u32, 15])];
            }
            cfg
        }
        "C19" => {
            let pp = phys_pct_for(&mut g.rng);
            let spec = match g.rng.weighted(&[45, 30, 25]) {
                0 => g.leaf(pp),
                1 => Spec::Alt { inner: Box::new(g.leaf(pp)), p: g.alt_p(true) },
                _ if g.rng.pct(20) => Spec::OvlSub { base: Box::new(g.leaf(pp)), dirs: LAYER_DIRS.iter().take(2).map(|s| s.to_string()).collect() },
                _ => {
                    let n = g.rng.range(1, 3);
                    Spec::Ovl { layers: (0..n).map(|_| g.leaf(pp)).collect() }
                }
            };
            let all_mem = !spec.has_phys();
            let mut spec = spec;
            if g.rng.pct(60) {
                // entries that exist in several layers / below the altroot from the start
                let view = g.gen_view(6);
                g.populate(&mut spec, &view, false);
            }
            let mut world = World { m: vec![spec.view()], w: Default::default() };
            g.avoid_known = spec.has_ovl();
            let grow: [u32; 19] = [0, 1, 0, 0, 0, 1, 0, 0, 8, 2, 1, 1, 0, 12, 8, 1, 1, 0, 0];
            let n = g.rng.range(4, 24);
            let mut ops = gen_history(&mut g, &mut world, 3, &grow);
            for _ in 0..n {
                if g.rng.pct(55) {
                    let t = g.target_w(&world.m[0], &[(Tc::File, 55), (Tc::NonRootDir, 30), (Tc::AbsentInDir, 15)]);
                    let f = *g.rng.pick(&[TField::Created, TField::Modified, TField::Accessed]);
                    let secs: i64 = if all_mem && g.rng.pct(15) {
                        *g.rng.pick(&[-30_000_000_000i64, 30_000_000_000, 253_402_300_799])
                    } else {
                        *g.rng.pick(&[0i64, 1, 86_400, 1_000_000_000, 2_000_000_000, 2_147_483_647, -1, -86_400, -2_000_000_000, 1_234_567_890])
                    };
                    let nanos = *g.rng.pick(&[0u32, 0, 1, 500_000_000, 999_999_999, 123_456_789]);
                    ops.push(Op::SetTime(P::new(&t), f, secs, nanos));
                } else if g.rng.pct(25) {
                    // a setter while a write handle to the file is open: the value must survive the
                    // publish at drop (memory keeps creation time across appends)
                    let append = g.rng.pct(65);
                    let t = if append { g.target(&world.m[0], Tc::File) } else { Some(g.target_w(&world.m[0], &[(Tc::File, 50), (Tc::AbsentInDir, 50)])) };
                    if let Some(t) = t {
                        let open = Op::OpenWrite { p: P::new(&t), append, slot: 0 };
                        let mut probe = world.clone();
                        if matches!(probe.apply(&open), Want::Ok(_)) {
                            // sometimes a read handle on the same file stays open across the session
                            // (its snapshot shares the stored buffer with the entry being replaced)
                            let live_reader = world.m[0].file(&t).is_some() && g.rng.pct(35);
                            let mut blk = vec![];
                            if live_reader {
                                blk.push(Op::OpenRead(P::new(&t), 1));
                                if g.rng.pct(50) {
                                    blk.push(Op::HRead(1, *g.rng.pick(&[1usize, 8192, READ_TO_END])));
                                }
                            }
                            blk.push(open);
                            if g.rng.pct(50) {
                                blk.push(Op::HWrite(0, g.payload()));
                            }
                            let f = *g.rng.pick(&[TField::Created, TField::Created, TField::Modified, TField::Accessed]);
                            blk.push(Op::SetTime(P::new(&t), f, *g.rng.pick(&[1i64, 86_400, 1_000_000_000, -86_400, 1_234_567_890]), *g.rng.pick(&[0u32, 1, 999_999_999])));
                            blk.push(Op::HWrite(0, g.payload()));
                            if g.rng.pct(40) {
                                blk.push(Op::HFlush(0));
                            }
                            blk.push(Op::HDrop(0));
                            if live_reader {
                                blk.push(Op::HDrop(1));
                            }
                            for o in &blk {
                                world.apply(o);
                            }
                            ops.extend(blk);
                        }
                    }
                } else {
                    ops.extend(gen_history(&mut g, &mut world, 1, &grow));
                }
            }
            base_cfg(prop, "time", seed, &mut g, vec![spec], ops)
        }
        "C20" => {
            let pp = if g.rng.pct(25) { 50 } else { 0 };
            let mut spec = match g.rng.weighted(&[25, 25, 40, 10]) {
                0 => g.leaf(pp),
                1 => Spec::Alt { inner: Box::new(g.leaf(pp)), p: g.alt_p(true) },
                2 if g.rng.pct(20) => {
                    let n = g.rng.range(2, 3);
                    Spec::OvlSub { base: Box::new(g.leaf(pp)), dirs: LAYER_DIRS.iter().take(n).map(|s| s.to_string()).collect() }
                }
                2 => {
                    let n = g.rng.range(2, 3);
                    Spec::Ovl { layers: (0..n).map(|_| g.leaf(pp)).collect() }
                }
                _ => {
                    let n = g.rng.range(1, 2);
                    let o = Spec::Ovl { layers: (0..n).map(|_| g.leaf(pp)).collect() };
                    Spec::Alt { inner: Box::new(o), p: g.alt_p(true) }
                }
            };
            if g.rng.pct(80) {
                let view = g.gen_view(7);
                g.populate(&mut spec, &view, false);
            }
            let mut world = World { m: vec![spec.view()], w: Default::default() };
            g.avoid_known = spec.has_ovl();
            // composite- and adapter-heavy mix
            let base: [u32; 19] = [5, 3, 2, 2, 5, 4, 5, 6, 4, 8, 3, 3, 8, 5, 5, 7, 7, 7, 7];
            let w = swarm_weights(&mut g.rng, &base);
            let n = g.rng.range(2, 9);
            let ops = gen_history(&mut g, &mut world, n, &w);
            let mut cfg = base_cfg(prop, "fault", seed, &mut g, vec![spec.clone()], ops);
            // which wrapped filesystems fail: a non-empty subset of the stack's nodes
            let nn = spec.node_count();
            let mut mask = 0u64;
            for id in 0..nn {
                if g.rng.pct(60) {
                    mask |= 1 << id;
                }
            }
            if mask == 0 {
                mask = 1 << g.rng.below(nn);
            }
            cfg.extra.insert("fault_nodes".into(), mask.to_string());
            cfg.extra.insert("sticky".into(), if g.rng.pct(30) { "1" } else { "0" }.into());
            cfg
        }
        "C13" => {
            g.size_profile = 1;
            g.domain = Domain::Unrestricted;
            let pp = phys_pct_for(&mut g.rng);
            let mut spec = match g.rng.weighted(&[25, 10, 30, 35]) {
                0 => {
                    let pc = if g.rng.pct(50) { 100 } else { 0 };
                    g.leaf(pc)
                }
                1 => Spec::Emb,
                2 => any_stack(&mut g, pp),
                _ => overlay_stack(&mut g, pp, 1, 4),
            };
            if g.rng.pct(15) {
                // type-conflicting overlay layers: each layer gets its own independent view
                if let Spec::Ovl { layers } = &mut spec {
                    for l in layers.iter_mut() {
                        strip_pre(l);
                        let view = g.gen_view(6);
                        g.populate(l, &view, false);
                    }
                }
            }
            let phys_top = matches!(spec, Spec::Phys { .. });
            let mut world = World { m: vec![spec.view()], w: Default::default() };
            let n = g.rng.range(4, 30);
            let w = swarm_weights(&mut g.rng, &W_DEFAULT);
            let mut ops: Vec<Op> = vec![];
            let emb_paths = ["/a.txt", "/ab", "/empty", "/sub", "/sub/n.txt", "/sub/deep/bin.dat", "/sub/n", "", "/a", "/sub/deep", "/ü.txt", "/a.b.c", "/nope"];
            for _ in 0..n {
                match g.rng.weighted(&[50, 22, 10, if phys_top { 10 } else { 0 }, 8]) {
                    0 => {
                        let mut batch = gen_history(&mut g, &mut world, 1, &w);
                        if let Some(mut op) = batch.pop() {
                            if matches!(spec, Spec::Emb) {
                                let t = emb_paths[g.rng.below(emb_paths.len())].to_string();
                                op = crate::mon_twin::map_op(&op, &|p: &P| P { fs: p.fs, s: t.clone() }, 0);
                            }
                            if g.rng.pct(20) {
                                // arbitrary (not equivalence-preserving) join strings
                                let names = g.names.clone();
                                let r = std::cell::RefCell::new(&mut g.rng);
                                op = crate::mon_twin::map_op(&op, &|p: &P| P { fs: p.fs, s: wild_join(&p.s, &mut r.borrow_mut(), &names) }, 0);
                            }
                            if !excluded_everywhere(&op) {
                                ops.push(op);
                            }
                        }
                    }
                    1 => {
                        // handle calls; slots 0,1 readers, 2,3 writers; handles stay open across steps
                        let t = if matches!(spec, Spec::Emb) {
                            emb_paths[g.rng.below(emb_paths.len())].to_string()
                        } else {
                            g.target_w(&world.m[0], &[(Tc::File, 60), (Tc::Dir, 15), (Tc::AbsentInDir, 15), (Tc::UnderFile, 10)])
                        };
                        let len = world.m[0].file(&t).map(|b| b.len() as i64).unwrap_or(5);
                        match g.rng.below(9) {
                            0 | 1 => ops.push(Op::OpenRead(P::new(&t), g.rng.below(2) as u8)),
                            2 => {
                                if !t.is_empty() {
                                    ops.push(Op::OpenWrite { p: P::new(&t), append: g.rng.pct(40), slot: 2 + g.rng.below(2) as u8 })
                                }
                            }
                            3 | 4 => ops.push(Op::HRead(g.rng.below(2) as u8, *g.rng.pick(&[0usize, 1, 2, 7, 8192, READ_TO_END, READ_EXACT, READ_EXACT + 1, READ_EXACT + 3]))),
                            5 | 6 => {
                                let w = *g.rng.pick(&[Whence::Start, Whence::Current, Whence::End]);
                                let off = *g.rng.pick(&[0, 1, -1, len, -len, len + 1, -len - 1, i64::MIN, i64::MAX, i64::MIN + 1, -1 - len, 1i64 << 62]);
                                ops.push(Op::HSeek(g.rng.below(2) as u8, w, off));
                            }
                            7 => {
                                // writers: bounded targets (a write past the end zero-fills the gap)
                                let slot = 2 + g.rng.below(2) as u8;
                                if g.rng.pct(50) {
                                    let w = *g.rng.pick(&[Whence::Start, Whence::Current, Whence::End]);
                                    let off = *g.rng.pick(&[0, 1, -1, len, -len - 1, 1000, -1000, 100_000]);
                                    ops.push(Op::HSeek(slot, w, if w == Whence::Start { off.abs() } else { off }));
                                } else {
                                    let pl = g.payload();
                                    ops.push(Op::HWrite(slot, pl));
                                }
                            }
                            _ => {
                                let slot = g.rng.below(4) as u8;
                                ops.push(if g.rng.pct(50) { Op::HFlush(slot) } else { Op::HDrop(slot) });
                            }
                        }
                    }
                    2 => {
                        let t = g.target_w(&world.m[0], &[(Tc::File, 40), (Tc::Dir, 30), (Tc::AbsentInDir, 20), (Tc::UnderFile, 10)]);
                        let f = *g.rng.pick(&[TField::Created, TField::Modified, TField::Accessed]);
                        let secs = *g.rng.pick(&[0i64, -1, 1, 4_000_000_000, -4_000_000_000, 100_000_000_000, -60_000_000_000]);
                        ops.push(Op::SetTime(P::new(&t), f, secs, *g.rng.pick(&[0u32, 999_999_999])));
                    }
                    3 => {
                        let t = g.target_w(&world.m[0], &[(Tc::Dir, 40), (Tc::AbsentInDir, 40), (Tc::File, 20)]);
                        ops.push(match g.rng.below(5) {
                            0 => Op::EnvNonUtf8(P::new(&t)),
                            1 => Op::EnvDanglingSymlink(P::new(&t)),
                            2 | 3 => Op::EnvSpecial(P::new(&t), if g.rng.pct(12) { 3 } else { g.rng.below(3) as u8 }),
                            _ => Op::EnvRemoveBehind(P::new(&t)),
                        });
                        if g.rng.pct(50) {
                            // look at it straight away, every way there is
                            let pt = P::new(&t);
                            ops.push(match g.rng.below(7) {
                                0 => Op::Metadata(pt),
                                1 => Op::IsFile(pt),
                                2 => Op::IsDir(pt),
                                3 => Op::ReadFile(pt, 64),
                                4 => Op::ReadToString(pt),
                                5 => Op::Exists(pt),
                                _ => Op::RemoveFile(pt),
                            });
                        }
                    }
                    _ => {
                        // a composite right after: faults and hostile content meet recursion
                        let t = g.target_w(&world.m[0], &[(Tc::Dir, 70), (Tc::AbsentInDir, 30)]);
                        if g.rng.pct(35) {
                            if let Some(op) = walk_after(&mut g, &mut world) {
                                ops.push(op);
                                continue;
                            }
                        }
                        ops.push(match g.rng.below(3) {
                            0 => Op::WalkDir(P::new(&t)),
                            1 => Op::ReadDir(P::new(&t)),
                            _ => Op::CreateDir(P::new(&t)),
                        });
                    }
                }
            }
            let nn = spec.node_count();
            let mut cfg = base_cfg(prop, "nopanic", seed, &mut g, vec![spec], ops);
            if g.rng.pct(40) {
                cfg.perturb = [*g.rng.pick(&[0u32, 30]), *g.rng.pick(&[0u32, 30]), *g.rng.pick(&[0u32, 15])];
            }
            if g.rng.pct(50) && !cfg.ops.is_empty() {
                let kinds = ["Other", "PermissionDenied", "StorageFull", "TimedOut", "InvalidData"];
                cfg.fault = Some(FaultPlan {
                    op_index: g.rng.below(cfg.ops.len()),
                    k: g.rng.range(1, 12) as u64,
                    sticky: g.rng.pct(40),
                    kind: kinds[g.rng.below(kinds.len())].into(),
                    nodes: if g.rng.pct(50) { u64::MAX } else { 1u64 << g.rng.below(nn) },
                    handles_only: false,
                });
            }
            cfg
        }
        "C15" => {
            g.allow_seek = false;
            g.size_profile = match g.rng.weighted(&[67, 25, 8]) {
                0 => 0,
                1 => 1,
                _ => 2,
            };
            let pp = if g.rng.pct(15) { 50 } else { 0 };
            let spec = match g.rng.weighted(&[25, 40, 35]) {
                0 => g.leaf(pp),
                1 => any_stack(&mut g, pp),
                _ => overlay_stack(&mut g, pp, 1, 3),
            };
            let mut world = World { m: vec![spec.view()], w: Default::default() };
            g.avoid_known = spec.has_ovl();
            let n = g.rng.range(4, 24);
            // walk_dir and composite operations carry the async-only state machines
            let base: [u32; 19] = [3, 3, 1, 1, 5, 5, 3, 9, 9, 6, 6, 6, 6, 9, 6, 4, 4, 5, 5];
            let w = swarm_weights(&mut g.rng, &base);
            let mut ops = vec![];
            let deep = g.rng.below(100) < 1;
            if deep {
                ops.extend(deep_chain(&mut g, &mut world, 0));
            }
            let n = if deep { n.min(6) } else { n };
            for _ in 0..n {
                ops.extend(gen_history(&mut g, &mut world, 1, &w));
                if g.rng.pct(14) {
                    if let Some(op) = walk_after(&mut g, &mut world) {
                        ops.push(op);
                    }
                }
                if g.rng.pct(6) {
                    // text with multi-byte characters around the copy-buffer boundaries, read as a string
                    if let Some(t) = g.target(&world.m[0], Tc::AbsentInDir) {
                        let id = (g.next_payload / 3 + 1) * 3;
                        g.next_payload = id + 1;
                        let len = *g.rng.pick(&[8190u32, 8191, 8192, 8193, 8194, 16383, 16385, 24577]) + g.rng.below(3) as u32;
                        let blk = vec![Op::Write { p: P::new(&t), append: false, script: vec![WStep::Write(Payload { id, len, utf8: true })] }, Op::ReadToString(P::new(&t)), Op::ReadFile(P::new(&t), 8192)];
                        for o in &blk {
                            world.apply(o);
                        }
                        ops.extend(blk);
                    }
                }
                if g.rng.pct(4) {
                    // join arguments both path types must refuse alike (trailing / all slashes)
                    let t = g.target_w(&world.m[0], &[(Tc::File, 40), (Tc::Dir, 40), (Tc::AbsentInDir, 20)]);
                    let bad = match g.rng.below(4) {
                        0 => "//".to_string(),
                        1 => "///".to_string(),
                        2 => format!("{}//", if t.is_empty() { "x" } else { &t }),
                        _ => format!("{}/", if t.is_empty() { "x" } else { &t }),
                    };
                    let op = match g.rng.below(3) {
                        0 => Op::Exists(P::new(&bad)),
                        1 => Op::CreateDir(P::new(&bad)),
                        _ => Op::ReadDir(P::new(&bad)),
                    };
                    world.apply(&op);
                    ops.push(op);
                }
                if g.rng.pct(7) && spec.has_phys() == false {
                    // a create handle kept open across calls on OTHER paths (its parent above
                    // all): the new file exists from the moment the handle is opened
                    if let Some(t) = g.target(&world.m[0], Tc::AbsentInDir) {
                        let par = parent_of(&t);
                        let slot = 3u8;
                        let open = Op::OpenWrite { p: P::new(&t), append: false, slot };
                        if matches!(world.clone().apply(&open), Want::Ok(_)) {
                            let mut blk = vec![open];
                            let others = [Op::RemoveDir(P::new(&par)), Op::ReadDir(P::new(&par)), Op::Exists(P::new(&t)), Op::RemoveDirAll(P::new(&par)), Op::Metadata(P::new(&par))];
                            for _ in 0..g.rng.range(1, 3) {
                                let o = others[g.rng.below(others.len())].clone();
                                // never the root, never a removal that would succeed (it would touch the open path)
                                let bad = matches!(&o, Op::RemoveDir(p) | Op::RemoveDirAll(p) if p.s.is_empty()) || matches!(o, Op::RemoveDirAll(_));
                                if !bad {
                                    blk.push(o);
                                }
                            }
                            blk.push(Op::HWrite(slot, g.payload()));
                            blk.push(Op::HDrop(slot));
                            blk.push(Op::ReadDir(P::new(&par)));
                            for o in &blk {
                                world.apply(o);
                            }
                            ops.extend(blk);
                        }
                    }
                }
                if g.rng.pct(12) {
                    let mut blk = reader_block(&mut g, &world.m[0], 0);
                    if spec.has_phys() && g.rng.pct(90) {
                        // known finding: async-std's File reports EOF after a zero-length read
                        blk.retain(|o| !matches!(o, Op::HRead(_, 0)));
                    }
                    ops.extend(blk);
                }
            }
            let mut cfg = base_cfg(prop, "async", seed, &mut g, vec![spec], ops);
            cfg.extra.insert("pend_pct_a".into(), g.rng.pick(&[10u32, 30, 50]).to_string());
            cfg.extra.insert("pend_pct_b".into(), g.rng.pick(&[60u32, 80, 100]).to_string());
            cfg
        }
        _ => panic!("no generator for {}", prop),
    }
}

/// arbitrary join argument derived from a path: not equivalence-preserving
pub fn wild_join(q: &str, rng: &mut Rng, names: &[String]) -> String {
    let nm = names[rng.below(names.len())].clone();
    match rng.below(14) {
        12 => format!("/{}", q),
        13 => format!("//{}/{}", nm, q.trim_start_matches('/')),
        0 => format!("{}/", q),
        1 => format!("{}/..", q),
        2 => format!("{}/../..", q),
        3 => format!("..{}", q),
        4 => format!("{}//{}", q, nm),
        5 => format!("{}/./{}/.", q, nm),
        6 => "../../../..".into(),
        7 => format!("/{}/../../{}", nm, nm),
        8 => format!("{}/{}", q, "x".repeat(300)),
        9 => "/".into(),
        10 => format!("{}/\u{1}{}", q, nm),
        _ => format!("{}{}", q, "/ü/../日本/.."),
    }
}

/// write through a handle that stays open: every flush must make the data visible to a fresh reader
pub fn flush_block(g: &mut Gen, world: &mut World, has_phys: bool) -> Vec<Op> {
    let m = &world.m[0];
    let append = g.rng.pct(35);
    let t = if append {
        match g.target(m, Tc::File) {
            Some(t) => t,
            None => return vec![],
        }
    } else {
        g.target_w(m, &[(Tc::AbsentInDir, 60), (Tc::File, 40)])
    };
    let mut ops = vec![Op::OpenWrite { p: P::new(&t), append, slot: 0 }];
    let mut probe = world.clone();
    if !matches!(probe.apply(&ops[0]), Want::Ok(_)) {
        return vec![];
    }
    let mut len: i64 = if append { m.file(&t).map(|b| b.len() as i64).unwrap_or(0) } else { 0 };
    for _ in 0..g.rng.range(1, 3) {
        // seeks on append handles only where every layer is in-memory (O_APPEND differs by design)
        if g.rng.pct(25) && (!append || !has_phys) && !append {
            let pos = g.rng.range(0, (len + 4) as usize) as i64;
            ops.push(Op::HSeek(0, Whence::Start, pos));
            len = len.max(pos);
        }
        let pl = g.payload();
        len += pl.len as i64;
        ops.push(Op::HWrite(0, pl));
        if g.rng.pct(70) {
            ops.push(Op::HFlush(0));
            let b = *g.rng.pick(&[1usize, 2, 3, 7, 512, 8191, 8192, 8193, 65536]);
            ops.push(Op::ReadFile(P::new(&t), b));
            ops.push(Op::Metadata(P::new(&t)));
        }
    }
    ops.push(Op::HDrop(0));
    let b = *g.rng.pick(&[1usize, 7, 8192, 65536]);
    ops.push(Op::ReadFile(P::new(&t), b));
    for op in &ops {
        world.apply(op);
    }
    ops
}

/// C14: files, then scripts of read/seek/write/flush on handles
pub fn handle_script(g: &mut Gen, spec: &Spec) -> Vec<Op> {
    let mut ops = vec![];
    let emb = matches!(spec, Spec::Emb);
    let all_mem = !spec.has_phys();
    let mut files: Vec<(String, i64)> = spec.view().t.iter().filter_map(|(k, n)| if let Node::File(b) = n { Some((k.clone(), b.len() as i64)) } else { None }).collect();
    if emb {
        files = vec![("/a.txt".into(), 5), ("/ab".into(), 1), ("/empty".into(), 0), ("/sub/n.txt".into(), 6), ("/sub/deep/bin.dat".into(), 11), ("/ü.txt".into(), 8)];
    } else {
        let view = spec.view();
        for _ in 0..g.rng.range(1, 3) {
            let name = g.name();
            let p = format!("/{}", name);
            if files.iter().any(|f| f.0 == p) || view.exists(&p) {
                continue;
            }
            let pl = g.payload();
            files.push((p.clone(), pl.len as i64));
            ops.push(Op::Write { p: P::new(&p), append: false, script: vec![WStep::Write(pl)] });
        }
    }
    let offsets = |g: &mut Gen, len: i64| -> i64 { *g.rng.pick(&[0, 0, 1, -1, 2, -2, len, len + 1, len - 1, -len, -len - 1, len / 2, -(len / 2), 5, 100, 70_000, -70_000, 1i64 << 40, -(1i64 << 40)]) };
    if files.is_empty() {
        return ops;
    }
    for _ in 0..g.rng.range(1, 4) {
        let (p, flen) = files[g.rng.below(files.len())].clone();
        if emb || g.rng.pct(60) {
            // reader script
            ops.push(Op::OpenRead(P::new(&p), 1));
            for _ in 0..g.rng.range(2, 10) {
                if g.rng.pct(55) {
                    ops.push(Op::HRead(1, *g.rng.pick(&[0usize, 1, 1, 2, 3, 7, 64, 4096, 8192, 70_000, READ_TO_END, READ_EXACT, READ_EXACT, READ_EXACT + 1, READ_EXACT + 2, READ_EXACT + 9000])));
                } else {
                    let w = *g.rng.pick(&[Whence::Start, Whence::Current, Whence::End]);
                    let mut off = offsets(g, flen);
                    if all_mem && g.rng.pct(15) {
                        // in-memory read handles have no OS limit: positions up to and beyond 2^63
                        // and the extreme relative offsets must behave like std::io::Cursor
                        off = *g.rng.pick(&[i64::MAX, i64::MAX - 1, i64::MIN, i64::MIN + 1, 1i64 << 62, -(1i64 << 62), 1, -1, 0]);
                    }
                    if w == Whence::Start {
                        off = off.checked_abs().unwrap_or(i64::MAX);
                    }
                    ops.push(Op::HSeek(1, w, off));
                }
            }
            ops.push(Op::HDrop(1));
        } else {
            let append = g.rng.pct(40);
            ops.push(Op::OpenWrite { p: P::new(&p), append, slot: 2 });
            let mut cur_len = if append { flen } else { 0 };
            for _ in 0..g.rng.range(1, 8) {
                match g.rng.weighted(&[50, 30, 20]) {
                    0 => {
                        // zero-length writes are not generated: after a seek past the end std's
                        // Cursor pads on an empty write while a file does not (unspecified corner)
                        let mut pl = g.payload();
                        pl.len = pl.len.max(1);
                        cur_len += pl.len as i64;
                        ops.push(Op::HWrite(2, pl));
                    }
                    1 => {
                        if !append || all_mem {
                            let w = *g.rng.pick(&[Whence::Start, Whence::Current, Whence::End]);
                            // bounded targets: a write past the end zero-fills the gap
                            let mut off = *g.rng.pick(&[0, 1, -1, 3, -3, cur_len, -cur_len, cur_len + 2, -cur_len - 1, 5000, -5000, 70_000]);
                            if w == Whence::Start {
                                off = off.abs();
                            }
                            cur_len = cur_len.max(cur_len + off.max(0)).min(400_000);
                            ops.push(Op::HSeek(2, w, off));
                        }
                    }
                    _ => ops.push(Op::HFlush(2)),
                }
            }
            ops.push(Op::HDrop(2));
            // the new length is not tracked exactly; following scripts use an estimate only
            if let Some(f) = files.iter_mut().find(|f| f.0 == p) {
                f.1 = cur_len;
            }
        }
    }
    ops
}

/// a directory chain deeper than any fixed small bound (66..90 levels), a file at its bottom, then
/// recursive operations over it
pub fn deep_chain(g: &mut Gen, world: &mut World, fs: usize) -> Vec<Op> {
    let depth = g.rng.range(66, 90);
    let top = format!("/{}", g.name());
    if world.m[fs].exists(&top) {
        return vec![];
    }
    let mut p = top.clone();
    for i in 1..depth {
        p.push('/');
        p.push(if i % 2 == 0 { 'p' } else { 'q' });
    }
    let leaf = format!("{}/leaf", p);
    let mut ops = vec![Op::CreateDirAll(P::on(fs as u8, &p)), Op::Write { p: P::on(fs as u8, &leaf), append: false, script: vec![WStep::Write(g.payload())] }];
    ops.push(Op::WalkDir(P::on(fs as u8, &top)));
    let dfs = g.rng.below(g.nfs);
    let dst = format!("/{}_copy", g.name());
    if !world.m[dfs].exists(&dst) {
        ops.push(if g.rng.pct(60) { Op::CopyDir(P::on(fs as u8, &top), P::on(dfs as u8, &dst)) } else { Op::MoveDir(P::on(fs as u8, &top), P::on(dfs as u8, &dst)) });
    }
    if g.rng.pct(60) {
        ops.push(Op::RemoveDirAll(P::on(fs as u8, &top)));
    }
    let mut kept = vec![];
    for op in ops {
        if matches!(world.clone().apply(&op), Want::Unspec) {
            continue;
        }
        world.apply(&op);
        kept.push(op);
    }
    kept
}

/// a walk whose entries change between listing and visit
pub fn walk_after(g: &mut Gen, world: &mut World) -> Option<Op> {
    let m = &world.m[0];
    let d = g.target(m, Tc::NonEmptyDir).or_else(|| if m.children("").is_empty() { None } else { Some(String::new()) })?;
    let descs = m.descendants(&d);
    let mut muts = vec![];
    if g.rng.pct(35) {
        // every sub-directory that the walk has listed (and queued) disappears before the walk
        // descends into it: several error items in a row
        for c in m.children(&d).into_iter().filter(|c| m.is_dir(c)).take(4) {
            muts.push(Op::RemoveDirAll(P::new(&c)));
        }
    }
    let extra = if muts.is_empty() { g.rng.range(1, 3) } else { g.rng.range(0, 1) };
    for _ in 0..extra {
        let t = descs[g.rng.below(descs.len())].clone();
        let mu = if m.is_dir(&t) {
            if g.rng.pct(70) {
                Op::RemoveDirAll(P::new(&t))
            } else {
                Op::CreateDir(P::new(&format!("{}/{}", t, g.name())))
            }
        } else {
            Op::RemoveFile(P::new(&t))
        };
        muts.push(mu);
    }
    // sometimes the entries vanish in the middle of the walk: directories that were already
    // visited (and queued) fail at descent, not at their metadata call
    let after = if g.rng.pct(45) { g.rng.range(1, 4) } else { 0 };
    let op = Op::WalkAfter { p: P::new(&d), muts, after };
    world.apply(&op);
    Some(op)
}

/// open a reader on a file (or sometimes something else), seek/read a little, drop it
pub fn reader_block(g: &mut Gen, m: &Model, slot: u8) -> Vec<Op> {
    // only files: opening a directory is judged as open+read (Op::ReadFile), because the OS lets
    // a directory be opened and fails only on read
    let t = match g.target(m, Tc::File) {
        Some(t) => t,
        None => return vec![],
    };
    let len = m.file(&t).map(|b| b.len()).unwrap_or(0) as i64;
    let mut ops = vec![Op::OpenRead(P::new(&t), slot)];
    for _ in 0..g.rng.range(1, 6) {
        if g.rng.pct(50) {
            let n = *g.rng.pick(&[0usize, 1, 2, 3, 7, 64, 8192, READ_TO_END, READ_EXACT, READ_EXACT + 2]);
            ops.push(Op::HRead(slot, n));
        } else {
            let off = *g.rng.pick(&[0, 1, -1, len, len + 1, len - 1, -len, -len - 1, 3, 100_000]);
            let w = *g.rng.pick(&[Whence::Start, Whence::Current, Whence::End]);
            let off = if w == Whence::Start { off.max(0) } else { off };
            ops.push(Op::HSeek(slot, w, off));
        }
    }
    ops.push(Op::HDrop(slot));
    ops
}

/// an equivalent but hostile join argument for a canonical path
pub fn hostile(q: &str, rng: &mut Rng, names: &[String]) -> String {
    let comps: Vec<&str> = q.split('/').filter(|c| !c.is_empty()).collect();
    let nm = |rng: &mut Rng| names[rng.below(names.len())].clone();
    if comps.is_empty() {
        return match rng.below(6) {
            0 => "/".into(),
            1 => ".".into(),
            2 => "..".into(),
            3 => format!("{}/..", nm(rng)),
            4 => "../..".into(),
            _ => format!("/../{}/./..", nm(rng)),
        };
    }
    if rng.pct(18) {
        // successive joins: a NON-root base, then an argument that climbs to the root or higher
        // (clamped there) and descends to the target again
        let depth = 1 + rng.below(3);
        let mut base = String::new();
        for k in 0..depth {
            base.push('/');
            if k < comps.len() && rng.pct(50) {
                base.push_str(comps[k]);
            } else {
                base.push_str(&nm(rng));
            }
        }
        let base_depth = canon(&base).map(|c| c.matches('/').count()).unwrap_or(depth);
        let climb = base_depth + *rng.pick(&[0usize, 0, 1, 3]);
        let out = format!("{}{}{}{}", base, crate::model::JOIN_SEP, "../".repeat(climb), comps.join("/"));
        if canon(&out).ok().as_deref() == Some(q) {
            return out;
        }
    }
    let mut out = String::new();
    match rng.below(9) {
        0 => {}
        1 => out.push('/'),
        2 => out.push_str("../../"),
        3 => out.push_str("/../"),
        4 => out.push_str("//"),
        5 => out.push_str("///"),
        6 => out.push_str("/./"),
        7 => out.push_str(&format!("//{}/../", nm(rng))),
        _ => out.push_str(&format!("{}/../", nm(rng))),
    }
    for (i, c) in comps.iter().enumerate() {
        if i > 0 {
            match rng.below(5) {
                0 => out.push_str("//"),
                1 => out.push_str("/./"),
                2 => out.push_str(&format!("/{}/../", nm(rng))),
                _ => out.push('/'),
            }
        }
        out.push_str(c);
    }
    match rng.below(6) {
        0 => out.push_str(&format!("/{}/{}/../..", nm(rng), nm(rng))),
        1 => out.push_str("/."),
        _ => {}
    }
    // the transformation must be canon-preserving
    if canon(&out).ok().as_deref() != Some(q) {
        return q.to_string();
    }
    out
}

pub fn strip_pre(s: &mut Spec) {
    match s {
        Spec::Mem { pre } | Spec::Phys { pre } => pre.clear(),
        Spec::Emb => {}
        Spec::Alt { inner, .. } => strip_pre(inner),
        Spec::Ovl { layers } => layers.iter_mut().for_each(strip_pre),
        Spec::OvlSub { base, .. } => strip_pre(base),
    }
}

fn c11_async_mirror(cfg: &RunCfg, out: &mut RunOut) -> Option<(String, String, usize)> {
    use crate::asyncsim::*;
    use std::collections::BTreeSet;
    let rt = tokio::runtime::Builder::new_current_thread().build().ok()?;
    let _guard = rt.enter();
    let mut abs = vec![];
    for (k, s) in cfg.specs.iter().enumerate() {
        abs.push(abuild(s, crate::rng::mix(cfg.order_seed, k as u64), cfg.permute, crate::rng::mix(cfg.seed, 0xC11A + k as u64), 20).ok()?);
    }
    out.count("probe.c11.async_runs");
    let shape = format!("{}/async", cfg.specs.iter().map(|s| s.shape()).collect::<Vec<_>>().join("+"));
    let mut ax = AExec { root: abs[0].root.clone(), slots: Default::default(), others: abs.iter().skip(1).map(|a| a.root.clone()).collect() };
    let mut world = World { m: cfg.specs.iter().map(|s| s.view()).collect(), w: Default::default() };
    let mut universe: Vec<BTreeSet<String>> = world.m.iter().map(|m| m.t.keys().cloned().collect()).collect();
    for op in &cfg.ops {
        for p in op.paths() {
            if let Ok(c) = canon(&p.s) {
                let f = (p.fs as usize).min(universe.len() - 1);
                for a in ancestors(&c) {
                    universe[f].insert(a);
                }
                universe[f].insert(c);
            }
        }
    }
    let rel = |op: &Op| matches!(op, Op::CreateDirAll(_) | Op::RemoveDirAll(_) | Op::CopyFile(..) | Op::MoveFile(..) | Op::CopyDir(..) | Op::MoveDir(..));
    for (idx, op) in cfg.ops.iter().enumerate() {
        let i = idx + 1;
        let before = world.clone();
        let want = world.apply(op);
        for (f, m) in world.m.iter().enumerate() {
            for k in m.t.keys() {
                universe[f].insert(k.clone());
            }
        }
        if matches!(want, Want::Unspec) {
            return None;
        }
        for a in &abs {
            a.ctl.on.store(true, std::sync::atomic::Ordering::SeqCst);
        }
        let mut st = PollStats::default();
        let got = ax.exec(op, &mut st);
        for a in &abs {
            a.ctl.on.store(false, std::sync::atomic::Ordering::SeqCst);
        }
        if got.is_panic() {
            return None;
        }
        let tcl = op_tclass(&before, op);
        if let Some(j) = judge(&want, &got) {
            if rel(op) {
                return Some((format!("C11|{}|{}|{}|{}", shape, op.kind(), tcl, j.0), format!("async port, step {} {:?}: want {} got {}", i, op, want_class(&want), short(&got)), i));
            }
            return None; // sync/async differences elsewhere are C15's business
        }
        if rel(op) {
            out.count("probe.c11.async_transfers_checked");
            for (f, a) in abs.iter().enumerate() {
                let snap = asnapshot(a, &universe[f]).ok()?;
                if let Some((p, field, d)) = compare_snap(&world.m[f], &snap) {
                    return Some((format!("C11|{}|{}|{}|{}|snap|{}", shape, op.kind(), tcl, got.class(), field), format!("async port, after step {} {:?}: filesystem {} path '{}': {}", i, op, f, p, d), i));
                }
            }
        }
    }
    None
}

pub fn run_cfg(cfg: &RunCfg, trace: bool) -> RunOut {
    match cfg.property.as_str() {
        "C01" | "C09" => run_contract(cfg, trace, &mut contract_monitor),
        "C11" => {
            let mut out = run_contract(cfg, trace, &mut |cx, i, op, b, w, g, s| {
                // recursive and transfer operations only
                let rel = |op: &Op| matches!(op, Op::CreateDirAll(_) | Op::RemoveDirAll(_) | Op::CopyFile(..) | Op::MoveFile(..) | Op::CopyDir(..) | Op::MoveDir(..));
                scoped_monitor(cx, i, op, b, w, g, s, &rel, &|_| true)
            });
            // the async port: the same history (same pair of filesystems) against the same model
            if out.violations.is_empty() && out.harness_error.is_none() && cfg.seed % 3 == 0 && !cfg.specs.iter().any(|s| s.has_emb()) {
                if let Some((key, detail, step)) = c11_async_mirror(cfg, &mut out) {
                    out.violations.push(Violation { property: "C11".into(), key, detail, step });
                }
            }
            out
        }
        "C10" => crate::mon_overlay::run_c10(cfg, trace),
        "C03" | "C05" => crate::mon_invariant::run(cfg, trace),
        "C12" => crate::mon_err::run(cfg, trace),
        "C04" => run_contract(cfg, trace, &mut |cx, i, op, b, w, g, s| {
            // data-bearing operations; snapshot fields bytes / metadata (length)
            let rel = |op: &Op| {
                matches!(
                    op,
                    Op::Write { .. } | Op::OpenWrite { .. } | Op::HWrite(..) | Op::HSeek(..) | Op::HFlush(_) | Op::HDrop(_) | Op::ReadFile(..) | Op::ReadToString(_) | Op::Metadata(_) | Op::CopyFile(..) | Op::MoveFile(..) | Op::CopyDir(..) | Op::MoveDir(..)
                )
            };
            scoped_monitor(cx, i, op, b, w, g, s, &rel, &|f| f == "bytes" || f == "metadata")
        }),
        "C14" => crate::mon_bytes::run_c14(cfg, trace),
        "C19" => crate::mon_time::run_c19(cfg, trace),
        "C20" => crate::mon_fault::run_c20(cfg, trace),
        "C13" => crate::mon_panic::run_c13(cfg, trace),
        "C15" => crate::mon_async::run_c15(cfg, trace),
        "C02" => crate::mon_twin::run_c02(cfg, trace),
        "C07" => crate::mon_twin::run_c07(cfg, trace),
        "C08" => crate::mon_overlay::run_c08(cfg, trace),
        p => RunOut { harness_error: Some(format!("no runner for {}", p)), ..Default::default() },
    }
}

// ------------------------------------------------------------------------------------------
// engine-independent interface used by the batch driver (configs travel as JSON values)

use serde_json::{json, Value};

pub fn engine_of(prop: &str) -> &'static str {
    match prop {
        "C16" | "C17" => "conc",
        _ => "seq",
    }
}

pub fn gen_any(prop: &str, seed: u64) -> Value {
    match engine_of(prop) {
        "seq" => {
            let sparse = |cfg: &mut RunCfg| {
                if matches!(prop, "C01" | "C09" | "C04" | "C11") && cfg.fault.is_none() {
                    let mut r = Rng::new(crate::rng::mix(seed, 0x5BA2));
                    if r.pct(25) {
                        cfg.extra.insert("snap_every".into(), r.pick(&["2", "3", "5", "1000"]).to_string());
                    }
                }
            };
            // a generated stack must be buildable by construction: initial contents of one leaf
            // never put an entry below a file or the same path twice with different types. If a
            // generator slips, the configuration is re-drawn (deterministically), never run.
            let mut cfg = gen_cfg(prop, seed);
            let mut attempt = 0u64;
            while !cfg.specs.iter().all(|s| s.self_consistent()) && attempt < 8 {
                attempt += 1;
                cfg = gen_cfg(prop, crate::rng::mix(seed, 0x5EED_0000 + attempt));
                cfg.seed = seed;
            }
            sparse(&mut cfg);
            // path expressions: in a third of the runs of the general checks a quarter of the calls
            // use an equivalent but non-canonical expression ('..', '.', doubled slashes, successive
            // joins from a non-root base) - same canonical path, same model, every backend
            if matches!(prop, "C01" | "C02" | "C03" | "C05" | "C09" | "C11" | "C12" | "C15") {
                let mut r = Rng::new(crate::rng::mix(seed, 0x4057));
                if r.pct(30) {
                    let names: Vec<String> = crate::gen::NAME_POOL.iter().take(18).map(|s| s.to_string()).collect();
                    let cell = std::cell::RefCell::new(r);
                    cfg.ops = cfg
                        .ops
                        .iter()
                        .map(|op| {
                            if cell.borrow_mut().pct(25) {
                                crate::mon_twin::map_op(op, &|p: &P| P { fs: p.fs, s: hostile(&p.s, &mut cell.borrow_mut(), &names) }, 0)
                            } else {
                                op.clone()
                            }
                        })
                        .collect();
                    cfg.extra.insert("hostile_paths".into(), "1".into());
                }
            }
            // executor modes that leave every expected outcome unchanged: handle reads and writes
            // through the vectored calls; path values handed out by listings and walks kept and used
            // as receivers of later calls instead of freshly joined ones
            {
                let mut r = Rng::new(crate::rng::mix(seed, 0x10571e));
                if r.pct(20) {
                    cfg.extra.insert("io_style".into(), "1".into());
                }
                if r.pct(25) {
                    cfg.extra.insert("keep_paths".into(), "1".into());
                }
            }
            // restart: in a quarter of the runs on stacks with adapters, the adapters are
            // constructed anew over the same layers once or twice (only durable state survives)
            if matches!(prop, "C01" | "C03" | "C04" | "C05" | "C08" | "C09" | "C10" | "C12" | "C15") && (cfg.specs[0].has_ovl() || matches!(cfg.specs[0], Spec::Alt { .. })) {
                let mut r = Rng::new(crate::rng::mix(seed, 0x2E0F));
                if r.pct(25) && !cfg.ops.is_empty() {
                    for _ in 0..(1 + r.below(2)) {
                        let at = r.below(cfg.ops.len() + 1);
                        // only where no handle is open
                        let mut open: std::collections::BTreeSet<u8> = Default::default();
                        for o in cfg.ops.iter().take(at) {
                            match o {
                                Op::OpenRead(_, sl) | Op::OpenWrite { slot: sl, .. } => {
                                    open.insert(*sl);
                                }
                                Op::HDrop(sl) => {
                                    open.remove(sl);
                                }
                                _ => {}
                            }
                        }
                        if open.is_empty() {
                            cfg.ops.insert(at, Op::Reopen);
                            if let Some(f) = cfg.fault.as_mut() {
                                if at <= f.op_index {
                                    f.op_index += 1;
                                }
                            }
                        }
                    }
                }
            }
            serde_json::to_value(cfg).unwrap()
        }
        "conc" => serde_json::to_value(gen_conc(prop, seed)).unwrap(),
        e => panic!("engine {} not built yet", e),
    }
}

pub fn run_any(prop: &str, cfg: &Value, trace: bool) -> RunOut {
    let mut out = run_any_inner(prop, cfg, trace);
    if let Some(e) = &out.harness_error {
        if e.starts_with("LIBRARY-PANIC") {
            // a legitimate call (create_dir_all / create_file of the initial contents) panicked
            let msg: String = e.chars().filter(|c| !c.is_ascii_digit()).take(140).collect();
            let msg: String = match msg.find(|c| c == '\'' || c == '`' || c == '"') {
                Some(k) => msg[..k].to_string(),
                None => msg,
            };
            out.violations.push(Violation { property: prop.to_string(), key: format!("{}|{}|build|{}", prop, shape_of(cfg), msg), detail: e.clone(), step: 0 });
            out.harness_error = None;
        } else if e.contains("LIBRARY-BUILD-ERROR") {
            // the initial contents of a generated stack are a tree by construction (checked when the
            // configuration is drawn): create_dir_all / create_file + write on a fresh filesystem
            // failed, which no property allows
            let msg: String = e.chars().filter(|c| !c.is_ascii_digit()).take(60).collect();
            let what = if e.contains("File already exists") { "file-exists" } else if e.contains("not exist") || e.contains("No such") { "not-found" } else { "other" };
            let _ = msg;
            out.violations.push(Violation { property: prop.to_string(), key: format!("{}|{}|build|initial-contents-refused:{}", prop, shape_of(cfg), what), detail: format!("building the stack through the public API failed: {}", e), step: 0 });
            out.harness_error = None;
        }
    }
    out
}

fn run_any_inner(prop: &str, cfg: &Value, trace: bool) -> RunOut {
    match engine_of(prop) {
        "seq" => match serde_json::from_value::<RunCfg>(cfg.clone()) {
            Ok(c) => {
                crate::ops::set_run_modes(&c.extra);
                let mut out = run_cfg(&c, trace);
                if c.extra.get("io_style").map(|v| v == "1").unwrap_or(false) {
                    out.count("mode.vectored_io_runs");
                }
                if c.extra.get("keep_paths").map(|v| v == "1").unwrap_or(false) {
                    out.count("mode.kept_path_values_runs");
                }
                out
            }
            Err(e) => RunOut { harness_error: Some(format!("bad cfg: {}", e)), ..Default::default() },
        },
        "conc" => match serde_json::from_value::<crate::conc::ConcCfg>(cfg.clone()) {
            Ok(c) => {
                crate::ops::set_run_modes(&Default::default());
                crate::conc::run_conc(&c, trace)
            }
            Err(e) => RunOut { harness_error: Some(format!("bad cfg: {}", e)), ..Default::default() },
        },
        e => RunOut { harness_error: Some(format!("engine {} not built yet", e)), ..Default::default() },
    }
}

pub fn gen_conc(prop: &str, seed: u64) -> crate::conc::ConcCfg {
    use crate::conc::ConcCfg;
    use crate::stack::Pre;
    let mut rng = Rng::new(seed);
    let mut next_payload = 1u32;
    let mut payload = |rng: &mut Rng| {
        let id = next_payload;
        next_payload += 1;
        Payload { id, len: rng.range(1, 6) as u32, utf8: true }
    };
    if prop == "C16" {
        // small universe of overlapping paths
        let universes: [&[&str]; 3] = [&["/a", "/a/b", "/b", "/a/c"], &["/a", "/ab", "/a/a"], &["/d", "/d/e", "/d/e/f"]];
        let uni = universes[rng.below(3)];
        let mut pre = vec![];
        let mut model = Model::new();
        for p in uni.iter() {
            if model.is_dir(&parent_of(p)) && rng.pct(45) {
                if rng.pct(55) {
                    model.t.insert(p.to_string(), Node::Dir);
                    pre.push(Pre { path: p.to_string(), file: None });
                } else {
                    let pl = payload(&mut rng);
                    model.t.insert(p.to_string(), Node::File(std::sync::Arc::new(pl.bytes())));
                    pre.push(Pre { path: p.to_string(), file: Some(pl) });
                }
            }
        }
        if rng.pct(22) {
            // observer vs replacer: one thread looks at an entry (or its parent) while another
            // removes it and creates an entry of the OTHER type (with content) at the same path
            let p = uni[rng.below(uni.len())].to_string();
            let par = parent_of(&p);
            let mut pre2: Vec<Pre> = vec![];
            for a in ancestors(&p) {
                if !a.is_empty() {
                    pre2.push(Pre { path: a, file: None });
                }
            }
            let starts_as_dir = rng.pct(50);
            let pl0 = payload(&mut rng);
            pre2.push(Pre { path: p.clone(), file: if starts_as_dir { None } else { Some(pl0) } });
            let observer = |rng: &mut Rng| match rng.below(6) {
                0 | 1 => Op::Metadata(P::new(&p)),
                2 => Op::Exists(P::new(&p)),
                3 => Op::ReadDir(P::new(&p)),
                4 => Op::ReadFile(P::new(&p), 64),
                _ => Op::ReadDir(P::new(&par)),
            };
            let mut t0 = vec![observer(&mut rng)];
            if rng.pct(35) {
                t0.push(observer(&mut rng));
            }
            let mut t1 = vec![];
            if starts_as_dir {
                t1.push(Op::RemoveDir(P::new(&p)));
                t1.push(Op::OpenWrite { p: P::new(&p), append: false, slot: 0 });
                t1.push(Op::HWrite(0, payload(&mut rng)));
                t1.push(Op::HDrop(0));
            } else {
                t1.push(Op::RemoveFile(P::new(&p)));
                t1.push(Op::CreateDir(P::new(&p)));
                if rng.pct(50) {
                    t1.push(Op::CreateDir(P::new(&format!("{}/k", p))));
                }
            }
            return ConcCfg { property: prop.into(), seed, spec: Spec::Mem { pre: pre2 }, program: vec![t0, t1], n_schedules: 60, schedule: None, sched_fs: false, setup: vec![] };
        }
        let nthreads = if rng.pct(70) { 2 } else { 3 };
        let mut program: Vec<Vec<Op>> = vec![vec![]; nthreads];
        let mut budget: i32 = 9;
        for t in 0..nthreads {
            let calls = rng.range(1, 3);
            for c in 0..calls {
                let p = P::new(uni[rng.below(uni.len())]);
                let k = rng.weighted(&[20, 15, 10, 12, 15, 8, 6, 7, 7]);
                let cost = if k == 1 || k == 2 { 3 } else { 1 };
                if budget - cost < (nthreads - t - 1) as i32 {
                    break;
                }
                budget -= cost;
                let slot = c as u8;
                match k {
                    0 => program[t].push(Op::CreateDir(p)),
                    1 | 2 => {
                        program[t].push(Op::OpenWrite { p, append: k == 2, slot });
                        program[t].push(Op::HWrite(slot, payload(&mut rng)));
                        program[t].push(Op::HDrop(slot));
                    }
                    3 => program[t].push(Op::RemoveFile(p)),
                    4 => program[t].push(Op::RemoveDir(p)),
                    5 => program[t].push(Op::Exists(p)),
                    6 => program[t].push(Op::Metadata(p)),
                    7 => program[t].push(Op::ReadDir(p)),
                    _ => program[t].push(Op::ReadFile(p, 64)),
                }
            }
            if program[t].is_empty() {
                program[t].push(Op::Exists(P::new(uni[0])));
                budget -= 1;
            }
        }
        return ConcCfg { property: prop.into(), seed, spec: Spec::Mem { pre }, program, n_schedules: 60, schedule: None, sched_fs: false, setup: vec![] };
    }
    // C17
    let names = ["a", "b", "c"];
    let spec = match rng.weighted(&[30, 15, 15, 10, 12, 8, 10]) {
        0 => Spec::Mem { pre: vec![] },
        1 => Spec::Alt { inner: Box::new(Spec::Mem { pre: vec![] }), p: "/ALTROOT_p".into() },
        2 => Spec::Ovl { layers: vec![Spec::Mem { pre: vec![] }, Spec::Mem { pre: vec![] }] },
        3 => Spec::Ovl { layers: vec![Spec::Mem { pre: vec![] }] },
        4 => Spec::Phys { pre: vec![] },
        5 => Spec::Alt { inner: Box::new(Spec::Phys { pre: vec![] }), p: "/ALTROOT_p".into() },
        _ => {
            if rng.pct(50) {
                Spec::Ovl { layers: vec![Spec::Phys { pre: vec![] }, Spec::Mem { pre: vec![] }] }
            } else {
                Spec::Ovl { layers: vec![Spec::Mem { pre: vec![] }, Spec::Mem { pre: vec![] }, Spec::Mem { pre: vec![] }] }
            }
        }
    };
    let mut spec = spec;
    let nthreads = rng.range(2, 4);
    // a common chain; every thread follows it with high probability, so prefixes of every length are shared
    let chain: Vec<&str> = (0..4).map(|_| names[rng.below(3)]).collect();
    let mut program = vec![];
    for _ in 0..nthreads {
        let mut calls = vec![];
        for _ in 0..(if rng.pct(30) { 2 } else { 1 }) {
            let depth = rng.range(1, 4);
            let mut p = String::new();
            let mut follow = true;
            for d in 0..depth {
                follow = follow && rng.pct(75);
                p.push('/');
                p.push_str(if follow { chain[d] } else { names[rng.below(3)] });
            }
            calls.push(Op::CreateDirAll(P::new(&p)));
        }
        program.push(calls);
    }
    if rng.pct(40) {
        // pre-existing prefix directories
        let d = rng.range(1, 3);
        let mut p = String::new();
        let mut pre = vec![];
        for c in chain.iter().take(d) {
            p.push('/');
            p.push_str(c);
            pre.push(Pre { path: p.clone(), file: None });
        }
        push_pre(&mut spec, pre);
    }
    // an earlier, finished history: directories of the chain that live in a lower layer were
    // removed through the overlay (deletion markers exist where the threads now create)
    let mut setup = vec![];
    if let Spec::Ovl { layers } = &mut spec {
        if layers.len() >= 2 && rng.pct(55) {
            let d = rng.range(1, 4);
            let mut p = String::new();
            let mut pre = vec![];
            for c in chain.iter().take(d) {
                p.push('/');
                p.push_str(c);
                pre.push(Pre { path: p.clone(), file: None });
            }
            let li = layers.len() - 1;
            push_pre(&mut layers[li], pre.clone());
            // remove from some depth downwards: remove_dir_all of a prefix, or the leaves one by one
            let from = rng.below(d);
            if rng.pct(60) {
                setup.push(Op::RemoveDirAll(P::new(&pre[from].path)));
            } else {
                for e in pre.iter().skip(from).rev() {
                    setup.push(Op::RemoveDir(P::new(&e.path)));
                }
            }
            if rng.pct(25) {
                // and partly re-created, sequentially, before the threads start
                setup.push(Op::CreateDir(P::new(&pre[from].path)));
            }
        }
    }
    let sched_fs = spec.has_phys() || rng.pct(30);
    ConcCfg { property: prop.into(), seed, spec, program, n_schedules: 60, schedule: None, sched_fs, setup }
}

fn push_pre(spec: &mut Spec, pre: Vec<crate::stack::Pre>) {
    match spec {
        Spec::Mem { pre: p } | Spec::Phys { pre: p } => p.extend(pre),
        Spec::Emb => {}
        Spec::Alt { inner, p } => {
            let pp = p.clone();
            push_pre(inner, pre.into_iter().map(|e| crate::stack::Pre { path: format!("{}{}", pp, e.path), file: e.file }).collect())
        }
        Spec::Ovl { layers } => {
            let n = layers.len();
            push_pre(&mut layers[n - 1], pre)
        }
        Spec::OvlSub { base, dirs } => {
            let d = dirs[dirs.len() - 1].clone();
            push_pre(base, pre.into_iter().map(|e| crate::stack::Pre { path: format!("{}{}", d, e.path), file: e.file }).collect())
        }
    }
}

fn shrink_conc(cfg: &Value) -> Vec<Value> {
    let c: crate::conc::ConcCfg = match serde_json::from_value(cfg.clone()) {
        Ok(c) => c,
        Err(_) => return vec![],
    };
    let mut out: Vec<crate::conc::ConcCfg> = vec![];
    let sched = c.schedule.clone().unwrap_or_default();
    // fewer context switches: let the previous thread continue
    for i in 1..sched.len() {
        if sched[i] != sched[i - 1] {
            let mut t = c.clone();
            let mut s2 = sched.clone();
            s2[i] = s2[i - 1];
            t.schedule = Some(s2);
            out.push(t);
        }
    }
    // drop a whole thread
    if c.program.len() > 2 {
        for t in 0..c.program.len() {
            let mut n = c.clone();
            n.program.remove(t);
            n.schedule = Some(sched.iter().filter(|d| **d as usize != t).map(|d| if (*d as usize) > t { d - 1 } else { *d }).collect());
            out.push(n);
        }
    }
    // drop one call (a session = open, write, drop goes as a unit)
    for t in 0..c.program.len() {
        let prog = &c.program[t];
        let mut j = 0;
        while j < prog.len() {
            let span = if matches!(prog[j], Op::OpenWrite { .. }) { 3 } else { 1 };
            if prog.len() > span || c.program.len() > 1 {
                let mut n = c.clone();
                n.program[t].drain(j..(j + span).min(prog.len()));
                if !n.program[t].is_empty() {
                    out.push(n);
                }
            }
            j += span;
        }
    }
    // simplify initial content
    if let Spec::Mem { pre } = &c.spec {
        for i in (0..pre.len()).rev() {
            let p = pre[i].path.clone();
            let v: Vec<_> = pre.iter().filter(|e| e.path != p && !is_under(&e.path, &p)).cloned().collect();
            let mut n = c.clone();
            n.spec = Spec::Mem { pre: v };
            out.push(n);
        }
    }
    out.into_iter().map(|c| serde_json::to_value(c).unwrap()).collect()
}

pub fn shape_of(cfg: &Value) -> String {
    if let Ok(s) = serde_json::from_value::<Spec>(cfg["spec"].clone()) {
        return s.shape();
    }
    match serde_json::from_value::<Vec<Spec>>(cfg["specs"].clone()) {
        Ok(specs) => specs.iter().map(|s| s.shape()).collect::<Vec<_>>().join("+"),
        Err(_) => cfg["shape"].as_str().unwrap_or("?").to_string(),
    }
}

pub fn sample_of(cfg: &Value) -> Value {
    if cfg.get("program").is_some() {
        return json!({"stack": shape_of(cfg), "seed": cfg["seed"], "threads": cfg["program"], "schedules_per_program": cfg["n_schedules"]});
    }
    let ops: Vec<String> = cfg["ops"].as_array().map(|a| a.iter().take(12).map(|o| o.to_string()).collect()).unwrap_or_default();
    json!({"stack": shape_of(cfg), "seed": cfg["seed"], "first_ops": ops, "n_ops": cfg["ops"].as_array().map(|a| a.len())})
}

pub fn evidence_meta(prop: &str) -> (&'static str, String, Value, Vec<String>) {
    let level = if prop == "C20" { "fault_enumeration" } else { "exploration" };
    let rule = match engine_of(prop) {
        "seq" => "one evaluation = one seeded run: a generated backend stack (real MemoryFS/PhysicalFS(tmpfs)/AltrootFS/OverlayFS behind listing-order/recording/fault wrappers), generated initial contents and a model-aware operation history executed step by step with a full observable snapshot after every step; a run signature is the stack shape plus the sequence of (operation kind, outcome class); non-trivial = at least 3 state-changing successes and at least 1 demanded failure; distinct_nontrivial counts distinct signatures among non-trivial runs".to_string(),
        _ => "see DESIGN.md".to_string(),
    };
    let mut real: Vec<&str> = vec!["vfs::VfsPath and all of src/path.rs", "MemoryFS", "PhysicalFS on a private tmpfs directory (real kernel)", "AltrootFS", "OverlayFS", "error.rs"];
    let mut wrappers: Vec<&str> = vec!["SimFS (sorts + seed-permutes listings, records calls, injects faults/short I/O/EINTR, yields to the scheduler)"];
    if matches!(prop, "C03" | "C05" | "C11" | "C13" | "C14") {
        real.push("EmbeddedFS over /verif/fixtures/embedded (rust-embed, debug-embed)");
    }
    if matches!(prop, "C08" | "C10" | "C11" | "C12" | "C13" | "C15" | "C19" | "C20") {
        real.push("async port: AsyncVfsPath and src/async_vfs/path.rs, AsyncMemoryFS, AsyncPhysicalFS, AsyncAltrootFS, AsyncOverlayFS (polled by the simulator's own executor; the C08/C19 mirrors enter a current-thread tokio runtime because the async physical time setters need one)");
        wrappers.push("PendFS (async twin of SimFS: seeded Pending injection at every trait call and handle poll, k-th-call failure, recorder of mutating calls)");
    }
    if matches!(prop, "C16" | "C17") {
        real.push("vfs::verif_hooks::RwLock (cfg feature verif-hooks): try_read/try_write loops that hand control to the simulator's scheduler; real threads, one runnable at a time");
        wrappers.push("interposed libc mkdir/rmdir/unlink/rename (scheduling points in front of PhysicalFS syscalls)");
    }
    let components = json!({
        "real": real,
        "harness_wrappers_public_trait": wrappers,
        "stubbed": [],
        "not_simulator_owned": ["SystemTime::now() inside MemoryFS (never compared or logged)"],
    });
    let assumptions = vec![
        "seeded sampling: a clean batch is evidence, not proof".to_string(),
        "the reference model encodes the operation contracts of DESIGN.md section 3.3".to_string(),
        "PhysicalFS runs against the real kernel on tmpfs".to_string(),
    ];
    (level, rule, components, assumptions)
}

// ---------------------------------------------------------------- shrinking

fn simplify_specs(specs: &[Spec]) -> Vec<Vec<Spec>> {
    let mut out = vec![];
    for (i, s) in specs.iter().enumerate() {
        for c in simplify_spec(s) {
            let mut v = specs.to_vec();
            v[i] = c;
            out.push(v);
        }
    }
    out
}

fn simplify_spec(s: &Spec) -> Vec<Spec> {
    let mut out = vec![];
    match s {
        Spec::Mem { pre } => {
            for i in (0..pre.len()).rev() {
                // drop one pre entry together with its descendants
                let p = pre[i].path.clone();
                let v: Vec<_> = pre.iter().filter(|e| e.path != p && !is_under(&e.path, &p)).cloned().collect();
                out.push(Spec::Mem { pre: v });
            }
        }
        Spec::Phys { pre } => {
            out.push(Spec::Mem { pre: pre.clone() });
            for i in (0..pre.len()).rev() {
                let p = pre[i].path.clone();
                let v: Vec<_> = pre.iter().filter(|e| e.path != p && !is_under(&e.path, &p)).cloned().collect();
                out.push(Spec::Phys { pre: v });
            }
        }
        Spec::Emb => {}
        Spec::Alt { inner, p } => {
            // unwrap the altroot when it re-roots at the underlying root
            if p.is_empty() {
                out.push((**inner).clone());
            } else {
                out.push(Spec::Alt { inner: inner.clone(), p: parent_of(p) });
            }
            for c in simplify_spec(inner) {
                out.push(Spec::Alt { inner: Box::new(c), p: p.clone() });
            }
        }
        Spec::OvlSub { base, dirs } => {
            if dirs.len() > 1 {
                for i in (0..dirs.len()).rev() {
                    let mut v = dirs.clone();
                    v.remove(i);
                    out.push(Spec::OvlSub { base: base.clone(), dirs: v });
                }
            }
            for c in simplify_spec(base) {
                out.push(Spec::OvlSub { base: Box::new(c), dirs: dirs.clone() });
            }
        }
        Spec::Ovl { layers } => {
            if layers.len() == 1 {
                out.push(layers[0].clone());
            }
            if layers.len() > 1 {
                for i in (0..layers.len()).rev() {
                    let mut v = layers.clone();
                    v.remove(i);
                    out.push(Spec::Ovl { layers: v });
                }
            }
            for (i, l) in layers.iter().enumerate() {
                for c in simplify_spec(l) {
                    let mut v = layers.clone();
                    v[i] = c;
                    out.push(Spec::Ovl { layers: v });
                }
            }
        }
    }
    out
}

fn shrink_op(op: &Op) -> Vec<Op> {
    let mut out = vec![];
    let small = |pl: &Payload| -> Vec<Payload> {
        let mut v = vec![];
        if pl.len > 1 {
            v.push(Payload { len: pl.len / 2, ..pl.clone() });
            v.push(Payload { len: 1, ..pl.clone() });
        }
        if !pl.utf8 {
            v.push(Payload { utf8: true, ..pl.clone() });
        }
        v
    };
    match op {
        Op::Write { p, append, script } => {
            for i in 0..script.len() {
                let mut s = script.clone();
                s.remove(i);
                out.push(Op::Write { p: p.clone(), append: *append, script: s });
            }
            for (i, st) in script.iter().enumerate() {
                if let WStep::Write(pl) = st {
                    for c in small(pl) {
                        let mut s = script.clone();
                        s[i] = WStep::Write(c);
                        out.push(Op::Write { p: p.clone(), append: *append, script: s });
                    }
                }
            }
        }
        Op::WalkAfter { p, muts, after } => {
            for i in 0..muts.len() {
                let mut m2 = muts.clone();
                m2.remove(i);
                out.push(Op::WalkAfter { p: p.clone(), muts: m2, after: *after });
            }
            if *after > 0 {
                out.push(Op::WalkAfter { p: p.clone(), muts: muts.clone(), after: after - 1 });
            }
        }
        Op::HWrite(s, pl) => {
            for c in small(pl) {
                out.push(Op::HWrite(*s, c));
            }
        }
        Op::ReadFile(p, b) if *b != 8192 => out.push(Op::ReadFile(p.clone(), 8192)),
        _ => {}
    }
    out
}

pub fn shrink_candidates(prop: &str, cfg: &Value, v: &Violation) -> Vec<Value> {
    if engine_of(prop) == "conc" {
        return shrink_conc(cfg);
    }
    if engine_of(prop) != "seq" {
        return vec![];
    }
    let c: RunCfg = match serde_json::from_value(cfg.clone()) {
        Ok(c) => c,
        Err(_) => return vec![],
    };
    let mut out: Vec<RunCfg> = vec![];
    // 1. truncate after the violating step
    if v.step < c.ops.len() {
        let mut t = c.clone();
        t.ops.truncate(v.step);
        out.push(t);
    }
    // 2. drop chunks, then single ops (later ops first)
    let n = c.ops.len();
    if n > 4 {
        for (a, b) in [(0, n / 2), (n / 4, 3 * n / 4), (0, n / 4), (n / 4, n / 2), (n / 2, 3 * n / 4)] {
            if b > a && b < n {
                let mut t = c.clone();
                t.ops.drain(a..b);
                out.push(t);
            }
        }
    }
    for i in (0..n.saturating_sub(1)).rev() {
        let mut t = c.clone();
        t.ops.remove(i);
        out.push(t);
    }
    // 3. perturbations and permutation off
    if c.perturb != [0, 0, 0] {
        let mut t = c.clone();
        t.perturb = [0, 0, 0];
        out.push(t);
    }
    if c.permute {
        let mut t = c.clone();
        t.permute = false;
        out.push(t);
    }
    // 4. simplify the stack
    if prop == "C07" {
        // the twin must stay the altroot's underlying spec, and the altroot must stay on top
        for s0 in simplify_spec(&c.specs[0]) {
            if let Spec::Alt { inner, .. } = &s0 {
                let mut t = c.clone();
                t.specs = vec![s0.clone(), (**inner).clone()];
                out.push(t);
            }
        }
    } else if prop == "C02" {
        // the pair is fixed: memory vs physical
    } else {
        for specs in simplify_specs(&c.specs) {
            let mut t = c.clone();
            t.specs = specs;
            out.push(t);
        }
    }
    // 5. shrink payloads / scripts
    for i in 0..n {
        for o in shrink_op(&c.ops[i]) {
            let mut t = c.clone();
            t.ops[i] = o;
            out.push(t);
        }
    }
    out.into_iter().map(|c| serde_json::to_value(c).unwrap()).collect()
}
