//! C15: the async port behaves like the sync API, independently of the poll schedule.
//! One history runs in lock-step on the sync stack and on two async twins that differ only in
//! their poll plan (where and how often inner futures, streams and handles return Pending).

use crate::asyncsim::*;
use crate::model::*;
use crate::mon_twin::{out_equiv, pair_verdict};
use crate::seq::*;
use crate::types::*;
use std::sync::atomic::Ordering;

fn entry_diff(a: &crate::observe::Entry, b: &crate::observe::Entry) -> Option<(&'static str, String)> {
    let ex = |e: &crate::observe::Entry| matches!(e.exists, Ok(true));
    if ex(a) != ex(b) {
        return Some(("exists", format!("{:?} vs {:?}", a.exists.as_ref().ok(), b.exists.as_ref().ok())));
    }
    match (&a.meta, &b.meta) {
        (Ok(x), Ok(y)) if x.dir == y.dir && x.len == y.len => {}
        (Err(_), Err(_)) => {}
        (x, y) => return Some(("metadata", format!("{} vs {}", short(&x.as_ref().map(|m| (m.dir, m.len)).map_err(|e| e.class)), short(&y.as_ref().map(|m| (m.dir, m.len)).map_err(|e| e.class))))),
    }
    match (&a.list, &b.list) {
        (Ok(x), Ok(y)) => {
            let (mut x2, mut y2) = (x.clone(), y.clone());
            x2.sort();
            y2.sort();
            if x2 != y2 {
                return Some(("read_dir", format!("{:?} vs {:?}", x2, y2)));
            }
        }
        (Err(_), Err(_)) => {}
        (x, y) => return Some(("read_dir", format!("ok={} vs ok={}", x.is_ok(), y.is_ok()))),
    }
    match (&a.bytes, &b.bytes) {
        (Ok(x), Ok(y)) if x == y => {}
        (Err(_), Err(_)) => {}
        (x, y) => return Some(("bytes", format!("{} vs {}", short(&x.as_ref().map(|b| b.len()).map_err(|e| e.class)), short(&y.as_ref().map(|b| b.len()).map_err(|e| e.class))))),
    }
    None
}

pub fn run_c15(cfg: &RunCfg, trace: bool) -> RunOut {
    let mut cx = match SeqCtx::new(cfg, trace) {
        Ok(c) => c,
        Err(e) => return RunOut { harness_error: Some(e), ..Default::default() },
    };
    cx.exec.fill_reads = true;
    let spec = &cfg.specs[0];
    let pct1: u32 = cfg.extra.get("pend_pct_a").and_then(|s| s.parse().ok()).unwrap_or(30);
    let pct2: u32 = cfg.extra.get("pend_pct_b").and_then(|s| s.parse().ok()).unwrap_or(70);
    let os = crate::rng::mix(cfg.order_seed, 0);
    let mut a1 = match abuild(spec, os, cfg.permute, crate::rng::mix(cfg.seed, 0xA1), pct1) {
        Ok(a) => a,
        Err(e) => return RunOut { harness_error: Some(format!("async stack: {}", e)), ..Default::default() },
    };
    let mut a2 = match abuild(spec, os, cfg.permute, crate::rng::mix(cfg.seed, 0xA2), pct2) {
        Ok(a) => a,
        Err(e) => return RunOut { harness_error: Some(format!("async stack: {}", e)), ..Default::default() },
    };
    let mut x1 = AExec { root: a1.root.clone(), slots: Default::default(), others: vec![] };
    let mut x2 = AExec { root: a2.root.clone(), slots: Default::default(), others: vec![] };
    let shape = cx.shape.clone();
    let mut sig = crate::rng::hash_str(&shape);
    let (mut succ_mut, mut demanded_fail) = (0, 0);
    let mem_only = !spec.has_phys();
    // slots whose previous call was a zero-length read (async-std's File quirk, known finding)
    let mut zero_read: std::collections::BTreeSet<u8> = Default::default();
    for i in 0..=cfg.ops.len() {
        let before = cx.world.clone();
        let mut stepinfo = "initial".to_string();
        if i > 0 {
            let op = &cfg.ops[i - 1];
            let want = cx.world.apply(op);
            cx.grow_universe();
            if matches!(op, Op::Reopen) && cx.exec.slots.is_empty() && x1.slots.is_empty() && x2.slots.is_empty() {
                // restart on all three: new adapters over the same layers
                let rs = cx.built[0].reopen(spec);
                let r1 = areopen(&mut a1, spec);
                let r2 = areopen(&mut a2, spec);
                if let Some(e) = rs.err().or(r1.err()).or(r2.err()) {
                    cx.out.harness_error = Some(e);
                    break;
                }
                cx.exec.roots[0] = cx.built[0].root.clone();
                cx.exec.kept.clear();
                x1.root = a1.root.clone();
                x2.root = a2.root.clone();
                cx.out.count("fault.restart_adapters_rebuilt");
            }
            let rs = cx.exec.exec(op);
            let mut st1 = PollStats::default();
            let mut st2 = PollStats::default();
            let inj1 = a1.ctl.injected.load(Ordering::SeqCst);
            a1.ctl.on.store(true, Ordering::SeqCst);
            let r1 = x1.exec(op, &mut st1);
            a1.ctl.on.store(false, Ordering::SeqCst);
            let inj1 = a1.ctl.injected.load(Ordering::SeqCst) - inj1;
            let inj2 = a2.ctl.injected.load(Ordering::SeqCst);
            a2.ctl.on.store(true, Ordering::SeqCst);
            let r2 = x2.exec(op, &mut st2);
            a2.ctl.on.store(false, Ordering::SeqCst);
            let inj2 = a2.ctl.injected.load(Ordering::SeqCst) - inj2;
            let k = format!("op.{}.{}", op.kind(), rs.class());
            cx.out.count(&k);
            sig = crate::rng::mix(sig, crate::rng::hash_str(&k));
            if matches!(want, Want::Ok(_)) && !op.is_observer() {
                succ_mut += 1;
            }
            if matches!(want, Want::Err(_)) {
                demanded_fail += 1;
            }
            cx.log(res_hash(&rs));
            cx.log(res_hash(&r1));
            cx.out.add("probe.c15.pendings_injected", inj1 + inj2);
            cx.out.add("probe.c15.polls", st1.polls + st2.polls);
            cx.out.steps += st1.polls + st2.polls;
            if cx.trace_on {
                cx.trace(format!("step {} {:?}\n    sync   {}\n    asyncA {} ({} polls, {} pendings injected)\n    asyncB {} ({} polls, {} injected)", i, op, short(&rs), short(&r1), st1.polls, inj1, short(&r2), st2.polls, inj2));
            }
            let tcl = op_tclass(&before, op);
            stepinfo = format!("{}({})", op.kind(), tcl);
            macro_rules! fail {
                ($k:expr, $d:expr) => {{
                    let key = format!("C15|{}|{}|{}|{}", shape, op.kind(), tcl, $k);
                    cx.violate(i, key, format!("step {} {:?}: {}", i, op, $d));
                    break;
                }};
            }
            for (name, r) in [("A", &r1), ("B", &r2)] {
                if let Res::Panic(m) = r {
                    if m.starts_with("EXECUTOR:") {
                        fail!("no-progress", format!("async twin {}: {}", name, m));
                    }
                }
            }
            let after_zero = match op {
                Op::HRead(s, _) | Op::HSeek(s, ..) => zero_read.contains(s),
                _ => false,
            };
            match op {
                Op::HRead(s, 0) => {
                    zero_read.insert(*s);
                }
                // read_exact into an empty buffer issues no read call at all: the handle is as the
                // zero-length read left it
                Op::HRead(_, n) if read_exact_len(*n) == Some(0) => {}
                Op::HRead(s, _) | Op::HSeek(s, ..) | Op::HDrop(s) | Op::OpenRead(_, s) => {
                    zero_read.remove(s);
                }
                _ => {}
            }
            // a walk whose entries change in its middle: which entries were already visited depends
            // on the (valid, unspecified) traversal order, so only panics, termination and
            // success/failure are compared
            let mid_walk = matches!(op, Op::WalkAfter { after, .. } if *after > 0);
            if mid_walk {
                let bad = [&rs, &r1, &r2].iter().any(|r| r.is_panic()) || rs.is_ok() != r1.is_ok() || r1.is_ok() != r2.is_ok();
                if bad {
                    fail!("mid-walk-mutation", format!("walk with entries changing in its middle: sync {} vs async {} / {}", short(&rs), short(&r1), short(&r2)));
                }
            } else if let Some((k, d)) = pair_verdict(&rs, &r1, "", true) {
                if after_zero {
                    fail!(format!("after-zero-length-read|sync-vs-async:{}", k), format!("sync vs async (directly after a zero-length read on this handle): {}", d));
                }
                fail!(format!("sync-vs-async:{}", k), format!("sync vs async: {}", d));
            }
            if mid_walk {
                // compared above
            } else if let Some((k, d)) = pair_verdict(&r1, &r2, "", true) {
                fail!(format!("poll-schedule-dependent:{}", k), format!("two poll schedules ({} vs {} pendings) give different results: {}", inj1, inj2, d));
            }
            if rs.is_panic() {
                break;
            }
            // the async walk must itself yield every directory before anything below it
            if let Res::Ok(Out::Walk(items)) = &r1 {
                let mut seen: std::collections::BTreeSet<&str> = Default::default();
                let rootp = canon(&op.paths()[0].s).unwrap_or_default();
                for it in items.iter().flatten() {
                    let par = parent_of(it);
                    if par != rootp && !seen.contains(par.as_str()) {
                        fail!("async-walk-child-before-parent", format!("async walk_dir yields '{}' before its directory", it));
                    }
                    seen.insert(it.as_str());
                }
                if let Res::Ok(Out::Walk(s_items)) = &rs {
                    if s_items.iter().map(|x| x.as_ref().ok()).collect::<Vec<_>>() == items.iter().map(|x| x.as_ref().ok()).collect::<Vec<_>>() {
                        cx.out.count("probe.c15.walk_sequence_identical");
                    } else {
                        cx.out.count("probe.c15.walk_sequence_differs_validly");
                    }
                }
            }
            if !cx.out.violations.is_empty() {
                break;
            }
            // bounded progress: a future that returns Pending must arrange its wake-up; the executor
            // waits up to 20 s for one and reports "EXECUTOR: stalled" otherwise (judged above), and a
            // per-operation poll budget bounds livelock. How often the library itself pends is not
            // judged (an extra, properly woken Pending is legal).
            if mem_only && (st1.external_waits > 0 || st2.external_waits > 0) {
                cx.out.count("probe.c15.wakeup_from_another_thread_on_memory_stack");
            }
            if st1.pendings > inj1 || st2.pendings > inj2 {
                cx.out.count("probe.c15.library_own_pendings");
            }
            let _ = out_equiv;
        }
        // snapshots: sync vs async A vs async B (not after pure observers: they cannot change state,
        // and C08 judges observers separately; saves half of the async snapshot cost)
        if i > 0 && cfg.ops[i - 1].is_observer() && i < cfg.ops.len() {
            continue;
        }
        let ss = cx.snap(0, false, false);
        let uni = cx.universe[0].clone();
        let s1 = match asnapshot(&a1, &uni) {
            Ok(s) => s,
            Err(e) => {
                cx.out.harness_error = Some(e);
                break;
            }
        };
        let s2 = match asnapshot(&a2, &uni) {
            Ok(s) => s,
            Err(e) => {
                cx.out.harness_error = Some(e);
                break;
            }
        };
        cx.log(ss.hash());
        cx.log(s1.hash());
        cx.out.state_hashes.push(cx.world.m[0].state_hash());
        if !s1.panics.is_empty() || !s2.panics.is_empty() {
            let key = format!("C15|{}|async-observer-panic", shape);
            cx.violate(i, key, "an async observer panicked".into());
            break;
        }
        let skip = cx.world.open_paths(0);
        let mut bad = None;
        for (p, es) in &ss.e {
            if skip.contains(p) {
                continue;
            }
            for (name, sn) in [("A", &s1), ("B", &s2)] {
                match sn.e.get(p) {
                    Some(ea) => {
                        if let Some((f, d)) = entry_diff(es, ea) {
                            bad = Some((p.clone(), f, format!("sync vs async {}: {}", name, d)));
                        }
                    }
                    None => bad = Some((p.clone(), "reachability", format!("reachable by listing in the sync world only (async {})", name))),
                }
            }
            if bad.is_some() {
                break;
            }
        }
        if let Some((p, f, d)) = bad {
            let key = format!("C15|{}|after={}|snap|{}", shape, stepinfo, f);
            cx.violate(i, key, format!("after step {}: '{}': {}", i, p, d));
            break;
        }
    }
    // async writers still open publish on drop, inside the run
    x1.slots.clear();
    x2.slots.clear();
    cx.out.signature = sig;
    cx.out.nontrivial = succ_mut >= 3 && demanded_fail >= 1;
    cx.finish()
}
