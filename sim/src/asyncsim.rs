//! Engine E3: poll-schedule simulator for the async port. A hand-written single-threaded
//! executor drives every future; `PendFS` (an `AsyncFileSystem` wrapper at every layer boundary)
//! makes inner futures, listing streams and handle polls return `Pending` a PRNG-chosen number of
//! times, so the poll schedule is seeded, replayable and shrinkable.

use crate::model::seek_from;
use crate::observe::{Entry, Snap};
use crate::ops::{err_info, io_err_info, meta_out};
use crate::rng::{hash_str, mix, Rng};
use crate::stack::{Pre, Spec, SENTINELS};
use crate::types::*;
use async_std::io::prelude::SeekExt;
use async_std::io::{Read, ReadExt, Seek, Write, WriteExt};
use async_trait::async_trait;
use futures::future::BoxFuture;
use futures::stream::{Stream, StreamExt};
use futures::FutureExt;
use std::collections::{BTreeMap, BTreeSet, VecDeque};
use std::future::Future;
use std::path::PathBuf;
use std::pin::Pin;
use std::sync::atomic::{AtomicBool, AtomicU64, Ordering};
use std::sync::{Arc, Condvar, Mutex};
use std::task::{Context, Poll, Wake, Waker};
use std::time::{Duration, SystemTime};
use vfs::async_vfs::{AsyncAltrootFS, AsyncFileSystem, AsyncMemoryFS, AsyncOverlayFS, AsyncPhysicalFS, AsyncVfsPath, SeekAndRead};
use vfs::{VfsMetadata, VfsResult};

// ------------------------------------------------------------------------------ executor

struct Flag {
    woken: AtomicBool,
    m: Mutex<()>,
    cv: Condvar,
}

impl Wake for Flag {
    fn wake(self: Arc<Self>) {
        self.woken.store(true, Ordering::SeqCst);
        let _g = self.m.lock().unwrap();
        self.cv.notify_all();
    }
}

#[derive(Default, Clone, Debug)]
pub struct PollStats {
    pub polls: u64,
    pub pendings: u64,
    pub external_waits: u64,
}

/// Drive a future to completion. `Pending` with the wake flag set => poll again at once;
/// without it => wait for the waker (only the blocking pool behind AsyncPhysicalFS does that).
pub fn drive<F: Future>(fut: F, stats: &mut PollStats) -> Result<F::Output, String> {
    let flag = Arc::new(Flag { woken: AtomicBool::new(false), m: Mutex::new(()), cv: Condvar::new() });
    let waker = Waker::from(flag.clone());
    let mut cx = Context::from_waker(&waker);
    let mut fut = Box::pin(fut);
    loop {
        flag.woken.store(false, Ordering::SeqCst);
        stats.polls += 1;
        match fut.as_mut().poll(&mut cx) {
            Poll::Ready(v) => return Ok(v),
            Poll::Pending => {
                stats.pendings += 1;
                if !flag.woken.load(Ordering::SeqCst) {
                    stats.external_waits += 1;
                    let mut g = flag.m.lock().unwrap();
                    let start = std::time::Instant::now();
                    while !flag.woken.load(Ordering::SeqCst) {
                        let (g2, _) = flag.cv.wait_timeout(g, Duration::from_millis(200)).unwrap();
                        g = g2;
                        if start.elapsed() > Duration::from_secs(20) {
                            return Err("future stalled: Pending without a wake-up for 20 s".into());
                        }
                    }
                }
                if stats.polls > 5_000_000 {
                    return Err("future does not complete within 5M polls".into());
                }
            }
        }
    }
}

// ------------------------------------------------------------------------------ PendFS

pub struct ACtl {
    pub order_seed: u64,
    pub permute: bool,
    pub on: AtomicBool,
    pub rng: Mutex<Rng>,
    /// percent chance that a poll point pends at all
    pub pend_pct: u32,
    pub injected: AtomicU64,
    /// fail the k-th call (trait call or handle poll that reaches the inner object); 0 = off
    pub fail_at: AtomicU64,
    pub sticky: AtomicBool,
    pub calls: AtomicU64,
    pub faults_fired: AtomicU64,
    /// recorder of mutating trait calls (node, method, path, second path, succeeded)
    pub rec_on: AtomicBool,
    pub rec: Mutex<Vec<ARec>>,
}

#[derive(Clone, Debug)]
pub struct ARec {
    pub node: u16,
    pub method: &'static str,
    pub path: String,
    pub path2: Option<String>,
    pub ok: bool,
}

impl ACtl {
    pub fn draw(&self) -> u32 {
        if !self.on.load(Ordering::Relaxed) {
            return 0;
        }
        let mut r = self.rng.lock().unwrap();
        if r.pct(self.pend_pct) {
            let n = 1 + r.weighted(&[70, 20, 10]) as u32;
            self.injected.fetch_add(n as u64, Ordering::Relaxed);
            n
        } else {
            0
        }
    }
    /// Some(error) if this call must fail (I/O-class error, never a "not found")
    pub fn fault(&self) -> Option<std::io::Error> {
        let k = self.fail_at.load(Ordering::Relaxed);
        if k == 0 || !self.on.load(Ordering::Relaxed) {
            return None;
        }
        let n = self.calls.fetch_add(1, Ordering::Relaxed) + 1;
        if n == k || (n > k && self.sticky.load(Ordering::Relaxed)) {
            self.faults_fired.fetch_add(1, Ordering::Relaxed);
            Some(std::io::Error::new(std::io::ErrorKind::Other, "injected fault"))
        } else {
            None
        }
    }
    pub fn record(&self, node: u16, method: &'static str, path: &str, path2: Option<&str>, ok: bool) {
        if self.rec_on.load(Ordering::Relaxed) {
            self.rec.lock().unwrap().push(ARec { node, method, path: path.to_string(), path2: path2.map(|s| s.to_string()), ok });
        }
    }
    pub fn take_rec(&self) -> Vec<ARec> {
        std::mem::take(&mut *self.rec.lock().unwrap())
    }
    /// like `fault`, for MUTATING trait calls: one in five injected failures is of kind not-found
    /// (from an observer that would be an answer, not a failure)
    pub fn fault_m(&self) -> Option<std::io::Error> {
        let k = self.fail_at.load(Ordering::Relaxed);
        self.fault().map(|e| if k % 5 == 4 { std::io::Error::new(std::io::ErrorKind::NotFound, "injected fault (not found)") } else { e })
    }
    pub fn quiet<T>(&self, f: impl FnOnce() -> T) -> T {
        let o = self.on.swap(false, Ordering::SeqCst);
        let r = f();
        self.on.store(o, Ordering::SeqCst);
        r
    }
}

struct YieldN(u32);

impl Future for YieldN {
    type Output = ();
    fn poll(mut self: Pin<&mut Self>, cx: &mut Context<'_>) -> Poll<()> {
        if self.0 > 0 {
            self.0 -= 1;
            cx.waker().wake_by_ref();
            Poll::Pending
        } else {
            Poll::Ready(())
        }
    }
}

/// returns true if the caller must return Pending now
fn pend_gate(left: &mut Option<u32>, ctl: &ACtl, cx: &mut Context<'_>) -> bool {
    let n = match left {
        Some(n) => *n,
        None => {
            let n = ctl.draw();
            *left = Some(n);
            n
        }
    };
    if n > 0 {
        *left = Some(n - 1);
        cx.waker().wake_by_ref();
        true
    } else {
        *left = None;
        false
    }
}

pub struct PendFS {
    inner: Box<dyn AsyncFileSystem>,
    node: u16,
    ctl: Arc<ACtl>,
}

impl std::fmt::Debug for PendFS {
    fn fmt(&self, f: &mut std::fmt::Formatter<'_>) -> std::fmt::Result {
        write!(f, "PendFS#{}({:?})", self.node, self.inner)
    }
}

struct PendStream {
    items: VecDeque<String>,
    ctl: Arc<ACtl>,
    left: Option<u32>,
}

impl Stream for PendStream {
    type Item = String;
    fn poll_next(self: Pin<&mut Self>, cx: &mut Context<'_>) -> Poll<Option<String>> {
        let this = self.get_mut();
        if this.items.is_empty() {
            // fused: the async walk polls an exhausted listing again
            return Poll::Ready(None);
        }
        if pend_gate(&mut this.left, &this.ctl, cx) {
            return Poll::Pending;
        }
        Poll::Ready(this.items.pop_front())
    }
}

struct PendRead {
    inner: Box<dyn SeekAndRead + Send + Unpin>,
    ctl: Arc<ACtl>,
    left: Option<u32>,
}

impl Read for PendRead {
    fn poll_read(self: Pin<&mut Self>, cx: &mut Context<'_>, buf: &mut [u8]) -> Poll<std::io::Result<usize>> {
        let this = self.get_mut();
        if pend_gate(&mut this.left, &this.ctl, cx) {
            return Poll::Pending;
        }
        if let Some(e) = this.ctl.fault() {
            return Poll::Ready(Err(e));
        }
        Pin::new(&mut this.inner).poll_read(cx, buf)
    }
    fn poll_read_vectored(self: Pin<&mut Self>, cx: &mut Context<'_>, bufs: &mut [std::io::IoSliceMut<'_>]) -> Poll<std::io::Result<usize>> {
        let this = self.get_mut();
        if pend_gate(&mut this.left, &this.ctl, cx) {
            return Poll::Pending;
        }
        if let Some(e) = this.ctl.fault() {
            return Poll::Ready(Err(e));
        }
        Pin::new(&mut this.inner).poll_read_vectored(cx, bufs)
    }
}

impl Seek for PendRead {
    fn poll_seek(self: Pin<&mut Self>, cx: &mut Context<'_>, pos: std::io::SeekFrom) -> Poll<std::io::Result<u64>> {
        let this = self.get_mut();
        if pend_gate(&mut this.left, &this.ctl, cx) {
            return Poll::Pending;
        }
        Pin::new(&mut this.inner).poll_seek(cx, pos)
    }
}

struct PendWrite {
    inner: Box<dyn Write + Send + Unpin>,
    ctl: Arc<ACtl>,
    left: Option<u32>,
}

impl Write for PendWrite {
    fn poll_write(self: Pin<&mut Self>, cx: &mut Context<'_>, buf: &[u8]) -> Poll<std::io::Result<usize>> {
        let this = self.get_mut();
        if pend_gate(&mut this.left, &this.ctl, cx) {
            return Poll::Pending;
        }
        if let Some(e) = this.ctl.fault() {
            return Poll::Ready(Err(e));
        }
        Pin::new(&mut this.inner).poll_write(cx, buf)
    }
    fn poll_write_vectored(self: Pin<&mut Self>, cx: &mut Context<'_>, bufs: &[std::io::IoSlice<'_>]) -> Poll<std::io::Result<usize>> {
        let this = self.get_mut();
        if pend_gate(&mut this.left, &this.ctl, cx) {
            return Poll::Pending;
        }
        if let Some(e) = this.ctl.fault() {
            return Poll::Ready(Err(e));
        }
        Pin::new(&mut this.inner).poll_write_vectored(cx, bufs)
    }
    fn poll_flush(self: Pin<&mut Self>, cx: &mut Context<'_>) -> Poll<std::io::Result<()>> {
        let this = self.get_mut();
        if pend_gate(&mut this.left, &this.ctl, cx) {
            return Poll::Pending;
        }
        Pin::new(&mut this.inner).poll_flush(cx)
    }
    fn poll_close(self: Pin<&mut Self>, cx: &mut Context<'_>) -> Poll<std::io::Result<()>> {
        let this = self.get_mut();
        if pend_gate(&mut this.left, &this.ctl, cx) {
            return Poll::Pending;
        }
        Pin::new(&mut this.inner).poll_close(cx)
    }
}

#[async_trait]
impl AsyncFileSystem for PendFS {
    async fn read_dir(&self, path: &str) -> VfsResult<Box<dyn Unpin + Stream<Item = String> + Send>> {
        YieldN(self.ctl.draw()).await;
        if let Some(e) = self.ctl.fault() {
            return Err(vfs::VfsError::from(e));
        }
        let mut v: Vec<String> = self.inner.read_dir(path).await?.collect().await;
        // same order seam as the sync SimFS: sorted, then permuted by (seed, node, path)
        v.sort();
        if self.ctl.permute && v.len() > 1 {
            let mut rng = Rng::new(mix(mix(self.ctl.order_seed, self.node as u64), hash_str(path)));
            rng.shuffle(&mut v);
        }
        Ok(Box::new(PendStream { items: v.into(), ctl: self.ctl.clone(), left: None }))
    }
    async fn create_dir(&self, path: &str) -> VfsResult<()> {
        YieldN(self.ctl.draw()).await;
        if let Some(e) = self.ctl.fault_m() {
            return Err(vfs::VfsError::from(e));
        }
        let r = self.inner.create_dir(path).await;
        self.ctl.record(self.node, "create_dir", path, None, r.is_ok());
        r
    }
    async fn open_file(&self, path: &str) -> VfsResult<Box<dyn SeekAndRead + Send + Unpin>> {
        YieldN(self.ctl.draw()).await;
        if let Some(e) = self.ctl.fault() {
            return Err(vfs::VfsError::from(e));
        }
        let h = self.inner.open_file(path).await?;
        Ok(Box::new(PendRead { inner: h, ctl: self.ctl.clone(), left: None }))
    }
    async fn create_file(&self, path: &str) -> VfsResult<Box<dyn Write + Send + Unpin>> {
        YieldN(self.ctl.draw()).await;
        if let Some(e) = self.ctl.fault_m() {
            return Err(vfs::VfsError::from(e));
        }
        let h = self.inner.create_file(path).await;
        self.ctl.record(self.node, "create_file", path, None, h.is_ok());
        let h = h?;
        Ok(Box::new(PendWrite { inner: h, ctl: self.ctl.clone(), left: None }))
    }
    async fn append_file(&self, path: &str) -> VfsResult<Box<dyn Write + Send + Unpin>> {
        YieldN(self.ctl.draw()).await;
        if let Some(e) = self.ctl.fault_m() {
            return Err(vfs::VfsError::from(e));
        }
        let h = self.inner.append_file(path).await;
        self.ctl.record(self.node, "append_file", path, None, h.is_ok());
        let h = h?;
        Ok(Box::new(PendWrite { inner: h, ctl: self.ctl.clone(), left: None }))
    }
    async fn metadata(&self, path: &str) -> VfsResult<VfsMetadata> {
        YieldN(self.ctl.draw()).await;
        if let Some(e) = self.ctl.fault() {
            return Err(vfs::VfsError::from(e));
        }
        self.inner.metadata(path).await
    }
    async fn set_creation_time(&self, path: &str, time: SystemTime) -> VfsResult<()> {
        YieldN(self.ctl.draw()).await;
        if let Some(e) = self.ctl.fault_m() {
            return Err(vfs::VfsError::from(e));
        }
        let r = self.inner.set_creation_time(path, time).await;
        self.ctl.record(self.node, "set_creation_time", path, None, r.is_ok());
        r
    }
    async fn set_modification_time(&self, path: &str, time: SystemTime) -> VfsResult<()> {
        YieldN(self.ctl.draw()).await;
        if let Some(e) = self.ctl.fault_m() {
            return Err(vfs::VfsError::from(e));
        }
        let r = self.inner.set_modification_time(path, time).await;
        self.ctl.record(self.node, "set_modification_time", path, None, r.is_ok());
        r
    }
    async fn set_access_time(&self, path: &str, time: SystemTime) -> VfsResult<()> {
        YieldN(self.ctl.draw()).await;
        if let Some(e) = self.ctl.fault_m() {
            return Err(vfs::VfsError::from(e));
        }
        let r = self.inner.set_access_time(path, time).await;
        self.ctl.record(self.node, "set_access_time", path, None, r.is_ok());
        r
    }
    async fn exists(&self, path: &str) -> VfsResult<bool> {
        YieldN(self.ctl.draw()).await;
        if let Some(e) = self.ctl.fault() {
            return Err(vfs::VfsError::from(e));
        }
        self.inner.exists(path).await
    }
    async fn remove_file(&self, path: &str) -> VfsResult<()> {
        YieldN(self.ctl.draw()).await;
        if let Some(e) = self.ctl.fault_m() {
            return Err(vfs::VfsError::from(e));
        }
        let r = self.inner.remove_file(path).await;
        self.ctl.record(self.node, "remove_file", path, None, r.is_ok());
        r
    }
    async fn remove_dir(&self, path: &str) -> VfsResult<()> {
        YieldN(self.ctl.draw()).await;
        if let Some(e) = self.ctl.fault_m() {
            return Err(vfs::VfsError::from(e));
        }
        let r = self.inner.remove_dir(path).await;
        self.ctl.record(self.node, "remove_dir", path, None, r.is_ok());
        r
    }
    async fn copy_file(&self, src: &str, dest: &str) -> VfsResult<()> {
        YieldN(self.ctl.draw()).await;
        if let Some(e) = self.ctl.fault_m() {
            return Err(vfs::VfsError::from(e));
        }
        let r = self.inner.copy_file(src, dest).await;
        self.ctl.record(self.node, "copy_file", src, Some(dest), r.is_ok());
        r
    }
    async fn move_file(&self, src: &str, dest: &str) -> VfsResult<()> {
        YieldN(self.ctl.draw()).await;
        if let Some(e) = self.ctl.fault_m() {
            return Err(vfs::VfsError::from(e));
        }
        let r = self.inner.move_file(src, dest).await;
        self.ctl.record(self.node, "move_file", src, Some(dest), r.is_ok());
        r
    }
    async fn move_dir(&self, src: &str, dest: &str) -> VfsResult<()> {
        YieldN(self.ctl.draw()).await;
        if let Some(e) = self.ctl.fault_m() {
            return Err(vfs::VfsError::from(e));
        }
        let r = self.inner.move_dir(src, dest).await;
        self.ctl.record(self.node, "move_dir", src, Some(dest), r.is_ok());
        r
    }
}

// ------------------------------------------------------------------------------ async stacks

pub struct ABuilt {
    pub root: AsyncVfsPath,
    pub ctl: Arc<ACtl>,
    pub base: Option<PathBuf>,
    pub has_phys: bool,
    /// leaves by node id (for restarts: adapters are rebuilt over the same leaves)
    pub reg: AReg,
}

#[derive(Default)]
pub struct AReg {
    pub leaf_roots: BTreeMap<u16, AsyncVfsPath>,
    pub phys_dirs: BTreeMap<u16, PathBuf>,
    pub reuse: bool,
}

impl Drop for ABuilt {
    fn drop(&mut self) {
        if let Some(b) = &self.base {
            let _ = std::fs::remove_dir_all(b);
        }
    }
}

async fn apply_pre(root: &AsyncVfsPath, pre: &[Pre]) -> Result<(), String> {
    for e in pre {
        let p = root.join(&e.path[1..]).map_err(|x| x.to_string())?;
        match &e.file {
            None => p.create_dir_all().await.map_err(|x| format!("LIBRARY-BUILD-ERROR pre {}: {}", e.path, x))?,
            Some(pl) => {
                p.parent().create_dir_all().await.map_err(|x| format!("LIBRARY-BUILD-ERROR pre {}: {}", e.path, x))?;
                let mut f = p.create_file().await.map_err(|x| format!("LIBRARY-BUILD-ERROR pre {}: {}", e.path, x))?;
                f.write_all(&pl.bytes()).await.map_err(|x| x.to_string())?;
                f.flush().await.map_err(|x| x.to_string())?;
            }
        }
    }
    Ok(())
}

fn abuild_rec<'a>(spec: &'a Spec, ctl: &'a Arc<ACtl>, next_id: &'a mut u16, base: &'a mut Option<PathBuf>, reg: &'a mut AReg) -> BoxFuture<'a, Result<AsyncVfsPath, String>> {
    async move {
        let id = *next_id;
        *next_id += 1;
        match spec {
            Spec::Mem { .. } if reg.reuse => reg.leaf_roots.get(&id).cloned().ok_or_else(|| "restart: unknown memory leaf".to_string()),
            Spec::Phys { .. } if reg.reuse => {
                let dir = reg.phys_dirs.get(&id).cloned().ok_or_else(|| "restart: unknown physical leaf".to_string())?;
                Ok(AsyncVfsPath::new(PendFS { inner: Box::new(AsyncPhysicalFS::new(&dir)), node: id, ctl: ctl.clone() }))
            }
            Spec::Mem { pre } => {
                let r = AsyncVfsPath::new(PendFS { inner: Box::new(AsyncMemoryFS::new()), node: id, ctl: ctl.clone() });
                apply_pre(&r, pre).await?;
                reg.leaf_roots.insert(id, r.clone());
                Ok(r)
            }
            Spec::Phys { pre } => {
                if base.is_none() {
                    let b = crate::stack::scratch_base();
                    std::fs::create_dir_all(&b).map_err(|e| e.to_string())?;
                    *base = Some(b);
                }
                let outer = base.as_ref().unwrap().join(format!("n{}", id));
                let (name, via) = crate::stack::phys_root_variant(ctl.order_seed, id);
                let real = outer.join(&name);
                std::fs::create_dir_all(&real).map_err(|e| e.to_string())?;
                let dir = if via {
                    std::fs::create_dir_all(outer.join("via")).map_err(|e| e.to_string())?;
                    outer.join("via").join("..").join(&name)
                } else {
                    real
                };
                for (name, bytes) in SENTINELS.iter() {
                    std::fs::write(outer.join(name), bytes).map_err(|e| e.to_string())?;
                }
                let r = AsyncVfsPath::new(PendFS { inner: Box::new(AsyncPhysicalFS::new(&dir)), node: id, ctl: ctl.clone() });
                apply_pre(&r, pre).await?;
                reg.phys_dirs.insert(id, dir.clone());
                Ok(r)
            }
            Spec::Emb => Err("EmbeddedFS has no async port".into()),
            Spec::Alt { inner, p } => {
                let ir = abuild_rec(inner, ctl, next_id, base, reg).await?;
                let sub = if p.is_empty() { ir.clone() } else { ir.join(&p[1..]).map_err(|e| e.to_string())? };
                sub.create_dir_all().await.map_err(|e| format!("LIBRARY-BUILD-ERROR altroot dir: {}", e))?;
                Ok(AsyncVfsPath::new(PendFS { inner: Box::new(AsyncAltrootFS::new(sub)), node: id, ctl: ctl.clone() }))
            }
            Spec::Ovl { layers } => {
                let mut ls = vec![];
                for l in layers.iter() {
                    ls.push(abuild_rec(l, ctl, next_id, base, reg).await?);
                }
                Ok(AsyncVfsPath::new(PendFS { inner: Box::new(AsyncOverlayFS::new(&ls)), node: id, ctl: ctl.clone() }))
            }
            Spec::OvlSub { base: b, dirs } => {
                let br = abuild_rec(b, ctl, next_id, base, reg).await?;
                let mut ls = vec![];
                for d in dirs {
                    let sub = br.join(&d[1..]).map_err(|e| e.to_string())?;
                    sub.create_dir_all().await.map_err(|e| format!("LIBRARY-BUILD-ERROR layer dir: {}", e))?;
                    ls.push(sub);
                }
                Ok(AsyncVfsPath::new(PendFS { inner: Box::new(AsyncOverlayFS::new(&ls)), node: id, ctl: ctl.clone() }))
            }
        }
    }
    .boxed()
}

pub fn abuild(spec: &Spec, order_seed: u64, permute: bool, pend_seed: u64, pend_pct: u32) -> Result<ABuilt, String> {
    let ctl = Arc::new(ACtl { order_seed, permute, on: AtomicBool::new(false), rng: Mutex::new(Rng::new(pend_seed)), pend_pct, injected: AtomicU64::new(0), fail_at: AtomicU64::new(0), sticky: AtomicBool::new(false), calls: AtomicU64::new(0), faults_fired: AtomicU64::new(0), rec_on: AtomicBool::new(false), rec: Mutex::new(vec![]) });
    let mut next_id = 0u16;
    let mut base = None;
    let mut reg = AReg::default();
    let mut st = PollStats::default();
    let r = drive(std::panic::AssertUnwindSafe(abuild_rec(spec, &ctl, &mut next_id, &mut base, &mut reg)).catch_unwind(), &mut st);
    let r = match r {
        Ok(Ok(x)) => Ok(x),
        Ok(Err(_)) => Ok(Err("LIBRARY-PANIC while creating the initial contents through the async API".to_string())),
        Err(e) => Err(e),
    };
    let root = match r {
        Ok(Ok(r)) => r,
        Ok(Err(e)) | Err(e) => {
            if let Some(b) = &base {
                let _ = std::fs::remove_dir_all(b);
            }
            return Err(e);
        }
    };
    Ok(ABuilt { root, ctl, base, has_phys: spec.has_phys(), reg })
}

/// restart: every async adapter is constructed anew over the same leaves
pub fn areopen(ab: &mut ABuilt, spec: &Spec) -> Result<(), String> {
    let mut next_id = 0u16;
    let mut base = ab.base.clone();
    let mut st = PollStats::default();
    ab.reg.reuse = true;
    let on = ab.ctl.on.swap(false, Ordering::SeqCst);
    let ctl = ab.ctl.clone();
    let r = drive(std::panic::AssertUnwindSafe(abuild_rec(spec, &ctl, &mut next_id, &mut base, &mut ab.reg)).catch_unwind(), &mut st);
    ab.ctl.on.store(on, Ordering::SeqCst);
    ab.reg.reuse = false;
    match r {
        Ok(Ok(Ok(root))) => {
            ab.root = root;
            Ok(())
        }
        Ok(Ok(Err(e))) => Err(e),
        Ok(Err(_)) => Err("LIBRARY-PANIC while re-creating the async adapters over the same layers".to_string()),
        Err(e) => Err(e),
    }
}

// ------------------------------------------------------------------------------ async exec

pub enum ASlot {
    R(Box<dyn SeekAndRead + Send + Unpin>),
    W(Box<dyn Write + Send + Unpin>),
}

pub struct AExec {
    pub root: AsyncVfsPath,
    pub slots: BTreeMap<u8, ASlot>,
    /// roots of further filesystems (path index 1, 2, ...) for cross-filesystem transfers
    pub others: Vec<AsyncVfsPath>,
}

fn aresolve(root: &AsyncVfsPath, s: &str) -> VfsResult<AsyncVfsPath> {
    if s.is_empty() {
        Ok(root.clone())
    } else if s.contains(crate::model::JOIN_SEP) {
        let mut cur = root.clone();
        for seg in s.split(crate::model::JOIN_SEP) {
            if !seg.is_empty() {
                cur = cur.join(seg)?;
            }
        }
        Ok(cur)
    } else {
        root.join(s)
    }
}

async fn adrain(h: &mut (dyn SeekAndRead + Send + Unpin), buf_size: usize) -> std::io::Result<Vec<u8>> {
    let mut out = vec![];
    let mut buf = vec![0u8; buf_size.max(1)];
    loop {
        match h.read(&mut buf).await {
            Ok(0) => return Ok(out),
            Ok(n) => {
                out.extend_from_slice(&buf[..n.min(buf.len())]);
                if out.len() > (64 << 20) {
                    return Err(std::io::Error::new(std::io::ErrorKind::Other, "read does not terminate"));
                }
            }
            Err(e) if e.kind() == std::io::ErrorKind::Interrupted => continue,
            Err(e) => return Err(e),
        }
    }
}

impl AExec {
    pub fn exec(&mut self, op: &Op, stats: &mut PollStats) -> Res {
        let fut = std::panic::AssertUnwindSafe(self.exec_inner(op)).catch_unwind();
        match drive(fut, stats) {
            Ok(Ok(Ok(o))) => Res::Ok(o),
            Ok(Ok(Err(e))) => Res::Err(e),
            Ok(Err(p)) => {
                let msg = if let Some(s) = p.downcast_ref::<&str>() {
                    s.to_string()
                } else if let Some(s) = p.downcast_ref::<String>() {
                    s.clone()
                } else {
                    "panic".into()
                };
                Res::Panic(msg)
            }
            Err(stall) => Res::Panic(format!("EXECUTOR: {}", stall)),
        }
    }

    fn exec_boxed<'a>(&'a mut self, op: &'a Op) -> futures::future::LocalBoxFuture<'a, Result<Out, ErrInfo>> {
        Box::pin(self.exec_inner(op))
    }

    async fn exec_inner(&mut self, op: &Op) -> Result<Out, ErrInfo> {
        let v = |e: vfs::VfsError| err_info(&e);
        let mut roots = vec![self.root.clone()];
        roots.extend(self.others.iter().cloned());
        let path = |p: &P| aresolve(&roots[(p.fs as usize).min(roots.len() - 1)], &p.s).map_err(|e| err_info(&e));
        match op {
            Op::Exists(p) => Ok(Out::Bool(path(p)?.exists().await.map_err(v)?)),
            Op::IsFile(p) => Ok(Out::Bool(path(p)?.is_file().await.map_err(v)?)),
            Op::IsDir(p) => Ok(Out::Bool(path(p)?.is_dir().await.map_err(v)?)),
            Op::Metadata(p) => Ok(Out::Meta(meta_out(&path(p)?.metadata().await.map_err(v)?))),
            Op::ReadDir(p) => {
                let st = path(p)?.read_dir().await.map_err(v)?;
                let items: Vec<AsyncVfsPath> = st.collect().await;
                Ok(Out::Names(items.iter().map(|c| c.as_str().to_string()).collect()))
            }
            Op::ReadFile(p, buf) => {
                let mut h = path(p)?.open_file().await.map_err(v)?;
                let b = adrain(&mut *h, *buf).await.map_err(|e| io_err_info(&e))?;
                Ok(Out::Bytes(b))
            }
            Op::ReadToString(p) => Ok(Out::Str(path(p)?.read_to_string().await.map_err(v)?)),
            Op::WalkDir(p) => {
                let mut st = path(p)?.walk_dir().await.map_err(v)?;
                let mut items = vec![];
                // polled item by item so every stored-future state of the stream machine is entered
                while let Some(x) = st.next().await {
                    match x {
                        Ok(c) => items.push(Ok(c.as_str().to_string())),
                        Err(e) => items.push(Err(err_info(&e))),
                    }
                    if items.len() > 100_000 {
                        break;
                    }
                }
                Ok(Out::Walk(items))
            }
            Op::WalkAfter { p, muts, after } => {
                let mut st = path(p)?.walk_dir().await.map_err(v)?;
                let mut items = vec![];
                for _ in 0..*after {
                    match st.next().await {
                        Some(Ok(c)) => items.push(Ok(c.as_str().to_string())),
                        Some(Err(e)) => items.push(Err(err_info(&e))),
                        None => break,
                    }
                }
                for m in muts {
                    let _ = self.exec_boxed(m).await;
                }
                while let Some(x) = st.next().await {
                    match x {
                        Ok(c) => items.push(Ok(c.as_str().to_string())),
                        Err(e) => items.push(Err(err_info(&e))),
                    }
                    if items.len() > 10_000 {
                        items.push(Err(ErrInfo { class: ErrClass::Other, path: String::new(), display: "walk does not terminate".into(), io_only: true }));
                        break;
                    }
                }
                Ok(Out::Walk(items))
            }
            Op::CreateDir(p) => path(p)?.create_dir().await.map(|_| Out::Unit).map_err(v),
            Op::CreateDirAll(p) => path(p)?.create_dir_all().await.map(|_| Out::Unit).map_err(v),
            Op::RemoveFile(p) => path(p)?.remove_file().await.map(|_| Out::Unit).map_err(v),
            Op::RemoveDir(p) => path(p)?.remove_dir().await.map(|_| Out::Unit).map_err(v),
            Op::RemoveDirAll(p) => path(p)?.remove_dir_all().await.map(|_| Out::Unit).map_err(v),
            Op::Write { p, append, script } => {
                let vp = path(p)?;
                let mut h = if *append { vp.append_file().await } else { vp.create_file().await }.map_err(v)?;
                let mut steps = vec![];
                for s in script {
                    let r: std::io::Result<u64> = match s {
                        WStep::Write(pl) => {
                            let b = pl.bytes();
                            let mut done = 0usize;
                            let mut first: std::io::Result<()> = Ok(());
                            if crate::ops::vectored_now() && !b.is_empty() {
                                // one vectored call first, the rest through plain writes
                                let mid = b.len() / 3;
                                let sl = [std::io::IoSlice::new(&b[..mid]), std::io::IoSlice::new(&[]), std::io::IoSlice::new(&b[mid..])];
                                match h.write_vectored(&sl).await {
                                    Ok(k) => done = k.min(b.len()),
                                    Err(e) => first = Err(e),
                                }
                            }
                            match first {
                                Ok(()) => h.write_all(&b[done..]).await.map(|_| b.len() as u64),
                                Err(e) => Err(e),
                            }
                        }
                        WStep::Seek(..) => Err(std::io::Error::new(std::io::ErrorKind::Unsupported, "async write handles cannot seek")),
                        WStep::Flush => h.flush().await.map(|_| 0),
                    };
                    steps.push(r.map_err(|e| io_err_info(&e)));
                }
                let _ = futures::AsyncWriteExt::close(&mut h).await;
                drop(h);
                Ok(Out::Session(steps))
            }
            Op::CopyFile(a, b) => {
                let (a, b) = (path(a)?, path(b)?);
                a.copy_file(&b).await.map(|_| Out::Unit).map_err(v)
            }
            Op::MoveFile(a, b) => {
                let (a, b) = (path(a)?, path(b)?);
                a.move_file(&b).await.map(|_| Out::Unit).map_err(v)
            }
            Op::CopyDir(pa, pb) => {
                let (a, b) = (path(pa)?, path(pb)?);
                crate::ops::own_subtree_guard(pa, pb, a.as_str(), b.as_str())?;
                a.copy_dir(&b).await.map(Out::Count).map_err(v)
            }
            Op::MoveDir(pa, pb) => {
                let (a, b) = (path(pa)?, path(pb)?);
                crate::ops::own_subtree_guard(pa, pb, a.as_str(), b.as_str())?;
                a.move_dir(&b).await.map(|_| Out::Unit).map_err(v)
            }
            Op::SetTime(p, f, secs, nanos) => {
                let vp = path(p)?;
                let t = crate::ops::from_parts(*secs, *nanos);
                match f {
                    TField::Created => vp.set_creation_time(t).await,
                    TField::Modified => vp.set_modification_time(t).await,
                    TField::Accessed => vp.set_access_time(t).await,
                }
                .map(|_| Out::Unit)
                .map_err(v)
            }
            Op::OpenRead(p, slot) => {
                let h = path(p)?.open_file().await.map_err(v)?;
                self.slots.insert(*slot, ASlot::R(h));
                Ok(Out::Unit)
            }
            Op::OpenWrite { p, append, slot } => {
                let vp = path(p)?;
                let h = if *append { vp.append_file().await } else { vp.create_file().await }.map_err(v)?;
                self.slots.insert(*slot, ASlot::W(h));
                Ok(Out::Unit)
            }
            Op::HRead(slot, n) if read_exact_len(*n).is_some() => match self.slots.get_mut(slot) {
                Some(ASlot::R(h)) => {
                    let mut buf = vec![0u8; read_exact_len(*n).unwrap()];
                    match h.read_exact(&mut buf).await {
                        Ok(()) => Ok(Out::Read(buf)),
                        Err(e) => {
                            let _ = h.seek(std::io::SeekFrom::End(0)).await;
                            Err(io_err_info(&e))
                        }
                    }
                }
                _ => Ok(Out::Unit),
            },
            Op::HRead(slot, n) if *n == READ_TO_END => match self.slots.get_mut(slot) {
                Some(ASlot::R(h)) => {
                    let mut buf = Vec::new();
                    h.read_to_end(&mut buf).await.map_err(|e| io_err_info(&e))?;
                    Ok(Out::Read(buf))
                }
                _ => Ok(Out::Unit),
            },
            Op::HRead(slot, n) => match self.slots.get_mut(slot) {
                Some(ASlot::R(h)) => {
                    // fill the buffer or reach EOF: short reads are legal, the data is compared
                    let mut buf = vec![0u8; *n];
                    let mut got = 0;
                    loop {
                        let k = if crate::ops::vectored_now() {
                            let rest = &mut buf[got..];
                            let mid = rest.len() / 3;
                            let (a, b) = rest.split_at_mut(mid);
                            let mut sl = [std::io::IoSliceMut::new(a), std::io::IoSliceMut::new(b)];
                            h.read_vectored(&mut sl).await
                        } else {
                            h.read(&mut buf[got..]).await
                        }
                        .map_err(|e| io_err_info(&e))?;
                        got += k.min(*n - got);
                        if k == 0 || got >= *n {
                            break;
                        }
                    }
                    buf.truncate(got);
                    Ok(Out::Read(buf))
                }
                _ => Ok(Out::Unit),
            },
            Op::HSeek(slot, w, off) => match self.slots.get_mut(slot) {
                Some(ASlot::R(h)) => h.seek(seek_from(*w, *off)).await.map(Out::Pos).map_err(|e| io_err_info(&e)),
                _ => Ok(Out::Unit),
            },
            Op::HWrite(slot, pl) => match self.slots.get_mut(slot) {
                Some(ASlot::W(h)) => {
                    let b = pl.bytes();
                    if crate::ops::IO_STYLE.with(|c| c.get()) == 1 {
                        // write_all semantics, every other call vectored (three slices, the middle one empty)
                        let mut rest: &[u8] = &b;
                        while !rest.is_empty() {
                            let k = if crate::ops::vectored_now() {
                                let mid = rest.len() / 3;
                                let sl = [std::io::IoSlice::new(&rest[..mid]), std::io::IoSlice::new(&[]), std::io::IoSlice::new(&rest[mid..])];
                                h.write_vectored(&sl).await
                            } else {
                                h.write(rest).await
                            }
                            .map_err(|e| io_err_info(&e))?;
                            if k == 0 || k > rest.len() {
                                return Err(ErrInfo { class: ErrClass::Other, path: String::new(), display: format!("write returned {} for {} bytes", k, rest.len()), io_only: true });
                            }
                            rest = &rest[k..];
                        }
                        Ok(Out::Num(b.len()))
                    } else {
                        h.write_all(&b).await.map(|_| Out::Num(b.len())).map_err(|e| io_err_info(&e))
                    }
                }
                _ => Ok(Out::Unit),
            },
            Op::HFlush(slot) => match self.slots.get_mut(slot) {
                Some(ASlot::W(h)) => h.flush().await.map(|_| Out::Unit).map_err(|e| io_err_info(&e)),
                _ => Ok(Out::Unit),
            },
            Op::HDrop(slot) => {
                if let Some(ASlot::W(mut h)) = self.slots.remove(slot) {
                    let _ = futures::AsyncWriteExt::close(&mut h).await;
                }
                Ok(Out::Unit)
            }
            Op::EnvNonUtf8(_) | Op::EnvDanglingSymlink(_) | Op::EnvRemoveBehind(_) | Op::EnvSpecial(..) | Op::Reopen => Ok(Out::Unit),
        }
    }
}

// ------------------------------------------------------------------------------ async snapshot

async fn aprobe(root: &AsyncVfsPath, p: &str) -> Entry {
    let vp = match aresolve(root, p) {
        Ok(v) => v,
        Err(e) => {
            let ei = err_info(&e);
            return Entry { exists: Err(ei.clone()), meta: Err(ei.clone()), is_file: Ok(false), is_dir: Ok(false), list: Err(ei.clone()), bytes: Err(ei) };
        }
    };
    let exists = vp.exists().await.map_err(|e| err_info(&e));
    let meta = vp.metadata().await.map(|m| meta_out(&m)).map_err(|e| err_info(&e));
    let list = match vp.read_dir().await {
        Ok(st) => {
            let items: Vec<AsyncVfsPath> = st.collect().await;
            Ok(items.iter().map(|c| c.as_str().to_string()).collect())
        }
        Err(e) => Err(err_info(&e)),
    };
    let bytes = match vp.open_file().await {
        Ok(mut h) => adrain(&mut *h, 8192).await.map_err(|e| io_err_info(&e)),
        Err(e) => Err(err_info(&e)),
    };
    Entry { exists, meta, is_file: Ok(false), is_dir: Ok(false), list, bytes }
}

pub fn asnapshot(b: &ABuilt, universe: &BTreeSet<String>) -> Result<Snap, String> {
    let root = b.root.clone();
    let uni = universe.clone();
    let fut = std::panic::AssertUnwindSafe(async move {
        let mut snap = Snap::default();
        let mut todo: Vec<String> = uni.iter().cloned().collect();
        todo.push(String::new());
        let mut seen: BTreeSet<String> = BTreeSet::new();
        while let Some(p) = todo.pop() {
            if !seen.insert(p.clone()) || seen.len() > 4000 {
                continue;
            }
            let e = aprobe(&root, &p).await;
            if let Ok(children) = &e.list {
                for c in children {
                    if !seen.contains(c) {
                        todo.push(c.clone());
                    }
                }
            }
            snap.e.insert(p, e);
        }
        snap
    })
    .catch_unwind();
    let mut st = PollStats::default();
    b.ctl.quiet(|| match drive(fut, &mut st) {
        Ok(Ok(s)) => Ok(s),
        Ok(Err(_)) => {
            let mut s = Snap::default();
            s.panics.push("async observer panicked".into());
            Ok(s)
        }
        Err(e) => Err(e),
    })
}
