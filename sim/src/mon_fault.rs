//! C20: underlying failures are never reported as success. For every operation i of a seeded
//! history and every k up to the number of calls that operation makes into the wrapped
//! filesystems, a fresh stack replays ops 0..i fault-free, fails the k-th call of op i, and judges:
//! Ok ⇒ the model's value and full effect; otherwise an error; never a panic; lower overlay layers
//! untouched; afterwards the stack must stay a well-formed tree that keeps tracking the model.

use crate::model::*;
use crate::mon_invariant::check_c03;
use crate::observe::Snap;
use crate::seq::*;
use crate::types::*;
use std::sync::atomic::Ordering;

/// model rebuilt from what the filesystem shows (after a failed operation any partial state is legal)
fn resync(s: &Snap) -> Model {
    let mut m = Model::new();
    for (p, e) in &s.e {
        if p.is_empty() || !matches!(e.exists, Ok(true)) {
            continue;
        }
        match &e.meta {
            Ok(mo) if mo.dir => {
                m.t.insert(p.clone(), Node::Dir);
            }
            Ok(_) => {
                let b = e.bytes.clone().unwrap_or_default();
                m.t.insert(p.clone(), Node::File(std::sync::Arc::new(b)));
            }
            Err(_) => {}
        }
    }
    m
}

struct PointOut {
    violation: Option<(String, String, usize)>,
    fired: bool,
    calls: u64,
    got_class: String,
}

/// one execution: ops 0..i fault-free, op i with the fault plan armed, the rest fault-free
fn run_point(cfg: &RunCfg, i: usize, plan: Option<&FaultPlan>, out: &mut RunOut, trace: bool) -> Result<PointOut, String> {
    let mut cx = SeqCtx::new(cfg, trace)?;
    let shape = cx.shape.clone();
    let lowers = cx.built[0].lower_layer_nodes();
    let mut po = PointOut { violation: None, fired: false, calls: 0, got_class: String::new() };
    let synced = true;
    for (j, op) in cfg.ops.iter().enumerate() {
        let before = cx.world.clone();
        let want = cx.world.apply(op);
        cx.grow_universe();
        let ctl = cx.built[0].ctl.clone();
        let faulted = j == i;
        if faulted {
            let mut f = ctl.fault.lock().unwrap();
            f.armed = true;
            f.counter = 0;
            f.tripped = false;
            if let Some(p) = plan {
                f.fail_at = Some(p.k);
                f.sticky = p.sticky;
                f.kind = io_kind(&p.kind);
                f.nodes = p.nodes;
            } else {
                f.fail_at = None;
                f.nodes = u64::MAX;
            }
            drop(f);
            ctl.fault_on.store(true, Ordering::SeqCst);
            ctl.take_log();
            ctl.set_rec(true);
        }
        let got = cx.exec.exec(op);
        if faulted {
            ctl.set_rec(false);
            let mut f = ctl.fault.lock().unwrap();
            f.armed = false;
            po.calls = f.counter;
            po.fired = f.tripped;
            let st = f.stats.clone();
            drop(f);
            if plan.map(|p| p.k != u64::MAX).unwrap_or(false) {
                out.add("fault.trait_call_error", st.trait_err);
                out.add("fault.handle_call_error", st.handle_err);
                if let Some(p) = plan {
                    out.add(&format!("fault.kind.{}", p.kind), st.trait_err + st.handle_err);
                    if p.sticky {
                        out.add("fault.sticky_points", 1);
                    }
                }
            }
            ctl.fault_on.store(cfg.perturb != [0, 0, 0], Ordering::SeqCst);
        }
        if trace {
            out.trace.push(format!("  [{}{}] {:?}\n      want {} got {}", j, if faulted { " FAULTED" } else { "" }, op, want_class(&want), short(&got)));
        }
        let tcl = op_tclass(&before, op);
        if j < i {
            // fault-free prefix: a deviation here is C01's business; stop this history
            if matches!(want, Want::Unspec) || judge(&want, &got).is_some() {
                return Err("prefix deviates from the model (not a C20 matter)".into());
            }
            continue;
        }
        let step = j + 1;
        if faulted {
            po.got_class = got.class();
            let fk = plan.map(|p| format!("k-of-{}", if p.sticky { "sticky" } else { "oneshot" })).unwrap_or_else(|| "nofault".into());
            if let Res::Panic(m) = &got {
                po.violation = Some((format!("C20|{}|{}|{}|panic|{}", shape, op.kind(), tcl, fk), format!("op {} {:?} panicked under the injected failure: {}", j, op, m), step));
                return Ok(po);
            }
            // lower overlay layers stay untouched, faults or not
            let log = ctl.take_log();
            for r in &log {
                let fast = matches!(r.method, "copy_file" | "move_file" | "move_dir");
                let (mp, mp2) = crate::stack::Built::mutated_paths(r.method, &r.path, r.path2.as_deref());
                if r.mutating && cx.built[0].touches_lower(r.node, mp, mp2) && !(fast && !r.ok) {
                    po.violation = Some((format!("C20|{}|{}|{}|lower-layer-mutating-call:{}", shape, op.kind(), tcl, r.method), format!("op {} {:?}: {}('{}') issued to lower-layer node {}", j, op, r.method, r.path, r.node), step));
                    return Ok(po);
                }
            }
            if !po.fired {
                // the fault-free counting pass (or k beyond the calls made): ordinary contract
                if matches!(want, Want::Unspec) || judge(&want, &got).is_some() {
                    return Err("faulted op deviates without a fault".into());
                }
                continue;
            }
            let snap = cx.snap(0, true, true);
            let ok_claimed = match &got {
                Res::Ok(Out::Session(steps)) => steps.iter().all(|s| s.is_ok()),
                Res::Ok(Out::Walk(items)) => items.iter().all(|s| s.is_ok()),
                Res::Ok(_) => true,
                _ => false,
            };
            if ok_claimed {
                // success claimed: the value and the full effect must be the model's
                let verdict = match &want {
                    Want::Ok(Some(v)) => match &got {
                        Res::Ok(o) => value_matches(v, o).err().map(|d| ("wrong-value", d)),
                        _ => None,
                    },
                    Want::Ok(None) => None,
                    Want::Err(_) => Some(("ok-where-failure-demanded", format!("the contract demands failure, got {}", short(&got)))),
                    Want::Unspec => return Err("unspecified op".into()),
                };
                let verdict = verdict.or_else(|| compare_snap(&cx.world.m[0], &snap).map(|(p, field, d)| ("partial-effect", format!("'{}' {}: {}", p, field, d))));
                if let Some((k, d)) = verdict {
                    po.violation = Some((format!("C20|{}|{}|{}|ok-with-{}|{}", shape, op.kind(), tcl, k, fk), format!("op {} {:?} reported success although call #{} into the underlying filesystem failed: {}", j, op, plan.map(|p| p.k).unwrap_or(0), d), step));
                    return Ok(po);
                }
                out.count("probe.c20.ok_by_other_route");
            } else {
                out.count("probe.c20.error_reported");
                // an error was reported: any partial state is accepted (the statement demands no
                // more); whether the tree is still well-formed is counted, not judged
                if check_c03(&snap).is_some() {
                    out.count("probe.c20.malformed_tree_after_reported_error");
                }
                let _ = (&resync, &synced);
                return Ok(po);
            }
            continue;
        }
        // j > i: after a success that was verified to have its full effect, the fault-free
        // continuation must keep tracking the model (hidden damage = the effect was not in place)
        if matches!(want, Want::Unspec) || (cfg.specs[0].has_ovl() && crate::props::known_trigger(op, &before)) {
            break;
        }
        let snap = cx.snap(0, false, false);
        let dev = judge(&want, &got).map(|(k, d)| (k, d)).or_else(|| compare_snap(&cx.world.m[0], &snap).map(|(p, field, d)| (format!("snap|{}", field), format!("'{}': {}", p, d))));
        if let Some((k, d)) = dev {
            let how = if synced { "after-ok" } else { "after-err" };
            po.violation = Some((
                format!("C20|{}|latent-damage-{}|faulted={}|later={}|{}", shape, how, cfg.ops[i].kind(), op.kind(), k.split('|').next().unwrap_or("")),
                format!("op {} {:?} misbehaves fault-free after op {} {:?} had call #{} failed: {}", j, op, i, cfg.ops[i], plan.map(|p| p.k).unwrap_or(0), d),
                step,
            ));
            return Ok(po);
        }
    }
    Ok(po)
}

/// The same fault point through the async port: ops 0..i fault-free on a fresh async stack, then
/// op i with the k-th call into a wrapped async filesystem failing. Ok(None): k is beyond the calls
/// the operation makes (enumeration of this op is complete).
fn run_point_async(cfg: &RunCfg, i: usize, k: u64, out: &mut RunOut, trace: bool) -> Result<Option<Option<(String, String, usize)>>, String> {
    use crate::asyncsim::*;
    let ab = abuild(&cfg.specs[0], crate::rng::mix(cfg.order_seed, 0), cfg.permute, crate::rng::mix(cfg.seed, 0xC20A), 20)?;
    let shape = format!("{}/async", cfg.specs[0].shape());
    let mut world = World { m: vec![cfg.specs[0].view()], w: Default::default() };
    let mut ax = AExec { root: ab.root.clone(), slots: Default::default(), others: vec![] };
    let mut universe: std::collections::BTreeSet<String> = world.m[0].t.keys().cloned().collect();
    for op in &cfg.ops {
        for p in op.paths() {
            if let Ok(c) = canon(&p.s) {
                for a in ancestors(&c) {
                    universe.insert(a);
                }
                universe.insert(c);
            }
        }
    }
    for (j, op) in cfg.ops.iter().enumerate().take(i + 1) {
        let before = world.clone();
        let want = world.apply(op);
        for key in world.m[0].t.keys() {
            universe.insert(key.clone());
        }
        if matches!(want, Want::Unspec) {
            return Err("unspecified op".into());
        }
        let faulted = j == i;
        ab.ctl.on.store(true, Ordering::SeqCst);
        if faulted {
            ab.ctl.calls.store(0, Ordering::SeqCst);
            ab.ctl.faults_fired.store(0, Ordering::SeqCst);
            ab.ctl.fail_at.store(k, Ordering::SeqCst);
        }
        let mut st = PollStats::default();
        let got = ax.exec(op, &mut st);
        ab.ctl.fail_at.store(0, Ordering::SeqCst);
        ab.ctl.on.store(false, Ordering::SeqCst);
        if trace {
            out.trace.push(format!("  async [{}{}] {:?}\n      want {} got {}", j, if faulted { " FAULTED" } else { "" }, op, want_class(&want), short(&got)));
        }
        if !faulted {
            if judge(&want, &got).is_some() {
                return Err("async prefix deviates from the model (C15's business)".into());
            }
            continue;
        }
        if ab.ctl.faults_fired.load(Ordering::SeqCst) == 0 {
            return Ok(None);
        }
        let tcl = op_tclass(&before, op);
        let step = j + 1;
        if let Res::Panic(m) = &got {
            if m.starts_with("EXECUTOR:") {
                return Ok(Some(Some((format!("C20|{}|{}|{}|no-progress-under-fault", shape, op.kind(), tcl), format!("async op {} {:?}: {}", j, op, m), step))));
            }
            return Ok(Some(Some((format!("C20|{}|{}|{}|panic", shape, op.kind(), tcl), format!("async op {} {:?} panicked under the injected failure: {}", j, op, m), step))));
        }
        let ok_claimed = match &got {
            Res::Ok(Out::Session(steps)) => steps.iter().all(|s| s.is_ok()),
            Res::Ok(Out::Walk(items)) => items.iter().all(|s| s.is_ok()),
            Res::Ok(_) => true,
            _ => false,
        };
        if ok_claimed {
            let verdict = match &want {
                Want::Ok(Some(v)) => match &got {
                    Res::Ok(o) => value_matches(v, o).err().map(|d| ("wrong-value", d)),
                    _ => None,
                },
                Want::Ok(None) => None,
                Want::Err(_) => Some(("ok-where-failure-demanded", format!("the contract demands failure, got {}", short(&got)))),
                Want::Unspec => None,
            };
            let snap = asnapshot(&ab, &universe)?;
            let verdict = verdict.or_else(|| compare_snap(&world.m[0], &snap).map(|(p, field, d)| ("partial-effect", format!("'{}' {}: {}", p, field, d))));
            if let Some((kk, d)) = verdict {
                return Ok(Some(Some((format!("C20|{}|{}|{}|ok-with-{}", shape, op.kind(), tcl, kk), format!("async op {} {:?} reported success although call #{} into the underlying async filesystem failed: {}", j, op, k, d), step))));
            }
            out.count("probe.c20.async_ok_by_other_route");
        } else {
            out.count("probe.c20.async_error_reported");
        }
        return Ok(Some(None));
    }
    Ok(None)
}

pub fn run_c20(cfg: &RunCfg, trace: bool) -> RunOut {
    let mut out = RunOut::default();
    let shape: String = cfg.specs.iter().map(|s| s.shape()).collect::<Vec<_>>().join("+");
    let mut sig = crate::rng::hash_str(&shape);
    // replay of a single async fault point
    if let (Some(plan), Some(_)) = (&cfg.fault, cfg.extra.get("async_point")) {
        match run_point_async(cfg, plan.op_index, plan.k, &mut out, trace) {
            Ok(Some(Some((key, detail, step)))) => out.violations.push(Violation { property: "C20".into(), key, detail, step }),
            Ok(_) => {}
            Err(e) => out.trace.push(format!("async fault point not applicable: {}", e)),
        }
        out.steps = 1;
        return out;
    }
    // replay of a single fault point
    if let Some(plan) = &cfg.fault {
        match run_point(cfg, plan.op_index, Some(plan), &mut out, trace) {
            Ok(po) => {
                if let Some((key, detail, step)) = po.violation {
                    out.violations.push(Violation { property: "C20".into(), key, detail, step });
                }
            }
            Err(e) => out.trace.push(format!("fault point not applicable: {}", e)),
        }
        out.steps = 1;
        return out;
    }
    let nodes: u64 = cfg.extra.get("fault_nodes").and_then(|s| s.parse().ok()).unwrap_or(u64::MAX);
    let kinds = ["Other", "PermissionDenied", "StorageFull", "TimedOut", "NotFound"];
    let sticky_too = cfg.extra.get("sticky").map(|s| s == "1").unwrap_or(false);
    let mut points = 0u64;
    let mut fired_points = 0u64;
    'ops: for i in 0..cfg.ops.len() {
        // phase A: count the calls op i makes into the chosen nodes
        let count_plan = FaultPlan { op_index: i, k: u64::MAX, sticky: false, kind: "Other".into(), nodes, handles_only: false };
        let n_calls = match run_point(cfg, i, Some(&count_plan), &mut out, false) {
            Ok(po) => po.calls,
            Err(_) => break 'ops,
        };
        out.add("probe.c20.calls_counted", n_calls);
        // phase B: every k
        for k in 1..=n_calls {
            for sticky in [false, true] {
                if sticky && !sticky_too {
                    continue;
                }
                let plan = FaultPlan { op_index: i, k, sticky, kind: kinds[((k as usize) + i) % kinds.len()].into(), nodes, handles_only: false };
                points += 1;
                out.steps += 1;
                match run_point(cfg, i, Some(&plan), &mut out, false) {
                    Ok(po) => {
                        if po.fired {
                            fired_points += 1;
                        }
                        let kk = format!("op.{}.under-fault.{}", cfg.ops[i].kind(), po.got_class);
                        out.count(&kk);
                        sig = crate::rng::mix(sig, crate::rng::hash_str(&kk));
                        out.log_hash = crate::rng::mix(out.log_hash, crate::rng::hash_str(&kk) ^ k);
                        if let Some((key, detail, step)) = po.violation {
                            out.violations.push(Violation { property: "C20".into(), key, detail, step });
                            // the replay file carries the single fault point
                            out.counters.insert("c20.violating_op_index".into(), i as u64);
                            out.counters.insert("c20.violating_k".into(), k);
                            out.counters.insert("c20.violating_sticky".into(), sticky as u64);
                            let mut single = cfg.clone();
                            single.fault = Some(plan.clone());
                            out.cfg_override = Some(serde_json::to_value(single).unwrap());
                            break 'ops;
                        }
                    }
                    Err(_) => {}
                }
            }
        }
    }
    // the same enumeration through the async port (a quarter of the histories)
    if out.violations.is_empty() && cfg.seed % 4 == 0 && !cfg.specs[0].has_phys() {
        'aops: for i in 0..cfg.ops.len() {
            for k in 1..=300u64 {
                match run_point_async(cfg, i, k, &mut out, false) {
                    Ok(None) => break,
                    Ok(Some(v)) => {
                        points += 1;
                        out.steps += 1;
                        out.add("fault.async_call_error", 1);
                        if let Some((key, detail, step)) = v {
                            out.violations.push(Violation { property: "C20".into(), key, detail, step });
                            let mut single = cfg.clone();
                            single.fault = Some(FaultPlan { op_index: i, k, sticky: false, kind: "Other".into(), nodes: u64::MAX, handles_only: false });
                            single.extra.insert("async_point".into(), "1".into());
                            out.cfg_override = Some(serde_json::to_value(single).unwrap());
                            break 'aops;
                        }
                    }
                    Err(_) => break 'aops,
                }
            }
        }
    }
    out.add("probe.c20.fault_points", points);
    out.add("probe.c20.fault_points_fired", fired_points);
    out.evals = points;
    out.signature = sig;
    out.nontrivial = fired_points >= 3;
    out.state_hashes.push(sig);
    out
}
