//! Full observable snapshot of a filesystem through the public path API (DESIGN 3.4).

use crate::ops::{drain, err_info, io_err_info, meta_out, resolve};
use crate::types::*;
use std::collections::{BTreeMap, BTreeSet};
use std::panic::{catch_unwind, AssertUnwindSafe};
use vfs::VfsPath;

#[derive(Clone, Debug, PartialEq, Eq)]
pub struct Entry {
    pub exists: Result<bool, ErrInfo>,
    pub meta: Result<MetaOut, ErrInfo>,
    pub is_file: Result<bool, ErrInfo>,
    pub is_dir: Result<bool, ErrInfo>,
    /// child full paths in yield order
    pub list: Result<Vec<String>, ErrInfo>,
    pub bytes: Result<Vec<u8>, ErrInfo>,
}

#[derive(Clone, Debug, PartialEq, Eq, Default)]
pub struct Snap {
    pub e: BTreeMap<String, Entry>,
    /// walk_dir(root) items in yield order
    pub walk: Option<Result<Vec<Result<String, ErrInfo>>, ErrInfo>>,
    pub panics: Vec<String>,
}

fn guard<T>(panics: &mut Vec<String>, what: &str, f: impl FnOnce() -> Result<T, ErrInfo>) -> Result<T, ErrInfo> {
    match catch_unwind(AssertUnwindSafe(f)) {
        Ok(r) => r,
        Err(p) => {
            let msg = if let Some(s) = p.downcast_ref::<&str>() {
                s.to_string()
            } else if let Some(s) = p.downcast_ref::<String>() {
                s.clone()
            } else {
                "panic".to_string()
            };
            panics.push(format!("{}: {}", what, msg));
            Err(ErrInfo { class: ErrClass::Other, path: String::new(), display: format!("PANIC: {}", msg), io_only: true })
        }
    }
}

thread_local! {
    /// path values yielded by the snapshots' own walks (keep_paths mode): a later snapshot probes
    /// through an equal kept value instead of a freshly joined one
    static KEPT_SNAP: std::cell::RefCell<std::collections::HashMap<String, VfsPath>> = std::cell::RefCell::new(Default::default());
}

pub fn clear_kept_snap() {
    KEPT_SNAP.with(|k| k.borrow_mut().clear());
}

pub fn probe(root: &VfsPath, p: &str, full: bool, panics: &mut Vec<String>) -> Entry {
    let vp = match resolve(root, p) {
        Ok(v) => {
            let kept = if crate::ops::KEEP_PATHS.with(|c| c.get()) { KEPT_SNAP.with(|k| k.borrow().get(v.as_str()).cloned()) } else { None };
            match kept {
                Some(k) if k == v => k,
                _ => v,
            }
        }
        Err(e) => {
            let ei = err_info(&e);
            return Entry {
                exists: Err(ei.clone()),
                meta: Err(ei.clone()),
                is_file: Err(ei.clone()),
                is_dir: Err(ei.clone()),
                list: Err(ei.clone()),
                bytes: Err(ei),
            };
        }
    };
    let exists = guard(panics, "exists", || vp.exists().map_err(|e| err_info(&e)));
    let meta = guard(panics, "metadata", || vp.metadata().map(|m| meta_out(&m)).map_err(|e| err_info(&e)));
    let (is_file, is_dir) = if full {
        (
            guard(panics, "is_file", || vp.is_file().map_err(|e| err_info(&e))),
            guard(panics, "is_dir", || vp.is_dir().map_err(|e| err_info(&e))),
        )
    } else {
        (Ok(false), Ok(false))
    };
    let list = guard(panics, "read_dir", || {
        vp.read_dir().map(|it| it.map(|c| c.as_str().to_string()).collect::<Vec<_>>()).map_err(|e| err_info(&e))
    });
    let bytes = guard(panics, "open_file+read", || {
        let mut h = vp.open_file().map_err(|e| err_info(&e))?;
        drain(&mut *h, 8192).map_err(|e| io_err_info(&e))
    });
    Entry { exists, meta, is_file, is_dir, list, bytes }
}

/// Probe every path of `universe` and everything reachable by recursive listing from the root.
pub fn snapshot(root: &VfsPath, universe: &BTreeSet<String>, full: bool, with_walk: bool) -> Snap {
    let mut snap = Snap::default();
    let mut todo: Vec<String> = universe.iter().cloned().collect();
    todo.push(String::new());
    let mut seen: BTreeSet<String> = BTreeSet::new();
    while let Some(p) = todo.pop() {
        if !seen.insert(p.clone()) {
            continue;
        }
        if seen.len() > 4000 {
            break;
        }
        let e = probe(root, &p, full, &mut snap.panics);
        if let Ok(children) = &e.list {
            for c in children {
                if !seen.contains(c) {
                    todo.push(c.clone());
                }
            }
        }
        snap.e.insert(p, e);
    }
    if with_walk {
        let mut panics = vec![];
        let w = guard(&mut panics, "walk_dir", || {
            let it = root.walk_dir().map_err(|e| err_info(&e))?;
            let mut items = vec![];
            let keep = crate::ops::KEEP_PATHS.with(|c| c.get());
            for x in it {
                if keep {
                    if let Ok(c) = &x {
                        KEPT_SNAP.with(|k| {
                            let mut k = k.borrow_mut();
                            if k.len() < 512 {
                                k.insert(c.as_str().to_string(), c.clone());
                            }
                        });
                    }
                }
                items.push(x.map(|c| c.as_str().to_string()).map_err(|e| err_info(&e)));
                if items.len() > 20_000 {
                    break;
                }
            }
            Ok(items)
        });
        snap.panics.extend(panics);
        snap.walk = Some(w);
    }
    snap
}

impl Snap {
    /// tree view: existing paths (by `exists`) with type and content as reported
    pub fn hash(&self) -> u64 {
        let mut h = 0u64;
        for (k, e) in &self.e {
            h = crate::rng::mix(h, crate::rng::hash_str(k));
            h = crate::rng::mix(h, matches!(e.exists, Ok(true)) as u64);
            if let Ok(m) = &e.meta {
                h = crate::rng::mix(h, m.dir as u64 + 2 * m.len);
            }
            if let Ok(b) = &e.bytes {
                h = crate::rng::mix(h, crate::rng::hash_bytes(b));
            }
            if let Ok(l) = &e.list {
                let mut l = l.clone();
                l.sort();
                for c in l {
                    h = crate::rng::mix(h, crate::rng::hash_str(&c));
                }
            }
        }
        h
    }
}
