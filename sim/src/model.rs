//! Reference model: one abstract tree of directories and byte files per filesystem, with the
//! operation contracts of DESIGN.md section 3.3. Only what the property texts demand is decided
//! here: success/failure, the named error classes, returned data and the resulting tree.

use crate::types::*;
use std::collections::BTreeMap;
use std::io::{Cursor, Seek, SeekFrom, Write};
use std::sync::Arc;

#[derive(Clone, Debug, PartialEq, Eq)]
pub enum Node {
    Dir,
    File(Arc<Vec<u8>>),
}

#[derive(Clone, Debug, PartialEq, Eq, Default)]
pub struct Model {
    pub t: BTreeMap<String, Node>,
}

#[derive(Clone, Debug, PartialEq)]
pub enum Want {
    /// must succeed; value compared when given
    Ok(Option<Out>),
    /// must fail; if the list is non-empty the error class must be one of it
    Err(Vec<ErrClass>),
    /// the properties leave this combination unspecified: not judged
    Unspec,
}

/// Lexical resolution of a join argument against the root (mirror of the documented join rules).
/// separator between the arguments of successive `join` calls inside one path expression
pub const JOIN_SEP: char = '\u{1}';

pub fn canon(arg: &str) -> Result<String, ()> {
    if arg.is_empty() {
        return Ok(String::new());
    }
    // '\u{1}' separates the arguments of successive joins: root.join(a)?.join(b)?...
    let mut comps: Vec<&str> = vec![];
    for seg in arg.split(JOIN_SEP) {
        if seg.len() > 1 && seg.ends_with('/') {
            return Err(());
        }
        if seg.starts_with('/') {
            comps.clear();
        }
        for c in seg.split('/') {
            if c.is_empty() || c == "." {
                continue;
            }
            if c == ".." {
                comps.pop();
            } else {
                comps.push(c);
            }
        }
    }
    let mut s = String::new();
    for c in comps {
        s.push('/');
        s.push_str(c);
    }
    Ok(s)
}

pub fn parent_of(p: &str) -> String {
    match p.rfind('/') {
        Some(i) => p[..i].to_string(),
        None => String::new(),
    }
}

pub fn name_of(p: &str) -> &str {
    match p.rfind('/') {
        Some(i) => &p[i + 1..],
        None => p,
    }
}

/// all proper ancestors of p, root first, excluding p itself
pub fn ancestors(p: &str) -> Vec<String> {
    let mut v = vec![String::new()];
    let mut pos = 1;
    while pos < p.len() {
        match p[pos..].find('/') {
            Some(i) => {
                v.push(p[..pos + i].to_string());
                pos = pos + i + 1;
            }
            None => break,
        }
    }
    if p.is_empty() {
        v.clear();
    }
    v
}

pub fn is_under(p: &str, anc: &str) -> bool {
    p.len() > anc.len() && p.starts_with(anc) && p.as_bytes()[anc.len()] == b'/'
}

impl Model {
    pub fn new() -> Model {
        let mut t = BTreeMap::new();
        t.insert(String::new(), Node::Dir);
        Model { t }
    }
    pub fn exists(&self, p: &str) -> bool {
        self.t.contains_key(p)
    }
    pub fn is_dir(&self, p: &str) -> bool {
        matches!(self.t.get(p), Some(Node::Dir))
    }
    pub fn is_file(&self, p: &str) -> bool {
        matches!(self.t.get(p), Some(Node::File(_)))
    }
    pub fn file(&self, p: &str) -> Option<&Arc<Vec<u8>>> {
        match self.t.get(p) {
            Some(Node::File(b)) => Some(b),
            _ => None,
        }
    }
    /// full paths of direct children, sorted
    pub fn children(&self, p: &str) -> Vec<String> {
        self.t
            .keys()
            .filter(|k| is_under(k, p) && !k[p.len() + 1..].contains('/'))
            .cloned()
            .collect()
    }
    /// full paths of all proper descendants, sorted
    pub fn descendants(&self, p: &str) -> Vec<String> {
        self.t.keys().filter(|k| is_under(k, p)).cloned().collect()
    }
    pub fn remove_subtree(&mut self, p: &str) {
        let ds = self.descendants(p);
        for d in ds {
            self.t.remove(&d);
        }
        self.t.remove(p);
    }
    pub fn dirs(&self) -> Vec<String> {
        self.t.iter().filter(|(_, n)| matches!(n, Node::Dir)).map(|(k, _)| k.clone()).collect()
    }
    pub fn files(&self) -> Vec<String> {
        self.t.iter().filter(|(_, n)| matches!(n, Node::File(_))).map(|(k, _)| k.clone()).collect()
    }
    /// insert entry creating missing ancestors as directories (used for initial contents only)
    pub fn put(&mut self, p: &str, n: Node) {
        for a in ancestors(p) {
            self.t.entry(a).or_insert(Node::Dir);
        }
        self.t.insert(p.to_string(), n);
    }
    pub fn state_hash(&self) -> u64 {
        let mut h = 0u64;
        for (k, n) in &self.t {
            h = crate::rng::mix(h, crate::rng::hash_str(k));
            match n {
                Node::Dir => h = crate::rng::mix(h, 1),
                Node::File(b) => h = crate::rng::mix(h, crate::rng::hash_bytes(b) ^ 2),
            }
        }
        h
    }
    /// shape hash: names abstracted to their rank among siblings, contents to length class
    pub fn shape_hash(&self) -> u64 {
        let mut h = 0u64;
        for (k, n) in &self.t {
            let depth = k.matches('/').count() as u64;
            h = crate::rng::mix(h, depth);
            match n {
                Node::Dir => h = crate::rng::mix(h, 1),
                Node::File(b) => h = crate::rng::mix(h, 2 + (b.len().min(3) as u64)),
            }
        }
        h
    }
}

/// Result of running a write script on a cursor: final buffer and, per step, the value std's
/// Cursor returns (Ok(n) for write = bytes, seek = position, flush = 0; Err for invalid seeks).
pub fn run_script(initial: Vec<u8>, at_end: bool, script: &[WStep]) -> (Vec<u8>, Vec<Result<u64, ()>>) {
    let mut cur = Cursor::new(initial);
    if at_end {
        cur.seek(SeekFrom::End(0)).unwrap();
    }
    let mut res = vec![];
    for s in script {
        match s {
            WStep::Write(pl) => {
                let b = pl.bytes();
                // a zero-length write is no call at all (std's Cursor::write_all would pad to the
                // seek position even for an empty buffer; the executor never issues such a call)
                if !b.is_empty() {
                    cur.write_all(&b).unwrap();
                }
                res.push(Ok(b.len() as u64));
            }
            WStep::Seek(w, off) => {
                let r = cur.seek(seek_from(*w, *off));
                res.push(r.map_err(|_| ()));
            }
            WStep::Flush => res.push(Ok(0)),
        }
    }
    (cur.into_inner(), res)
}

pub fn seek_from(w: Whence, off: i64) -> SeekFrom {
    match w {
        Whence::Start => SeekFrom::Start(off as u64),
        Whence::Current => SeekFrom::Current(off),
        Whence::End => SeekFrom::End(off),
    }
}

/// An open write handle as the contracts see it: a growable cursor whose buffer is published at
/// flush and drop. While `dirty`, what other observers see at `path` is unspecified.
#[derive(Clone, Debug, PartialEq)]
pub struct WSlot {
    pub fs: usize,
    pub path: String,
    pub cur: Cursor<Vec<u8>>,
    pub dirty: bool,
    pub append: bool,
}

/// The world: one model per filesystem index, plus open write handles.
#[derive(Clone, Debug, PartialEq, Default)]
pub struct World {
    pub m: Vec<Model>,
    pub w: BTreeMap<u8, WSlot>,
}

fn nf_if(m: &Model, p: &str) -> Vec<ErrClass> {
    // "a target that is missing from an existing directory is reported as not-found"
    if !m.exists(p) && !p.is_empty() && m.is_dir(&parent_of(p)) {
        vec![ErrClass::NotFound]
    } else {
        vec![]
    }
}

impl World {
    pub fn new(n: usize) -> World {
        World { m: (0..n).map(|_| Model::new()).collect(), w: BTreeMap::new() }
    }

    /// Decide what the contracts demand for `op` and apply its effect. Paths must be canonical
    /// or resolvable by `canon`; an invalid join argument demands InvalidPath.
    pub fn apply(&mut self, op: &Op) -> Want {
        // resolve all path expressions first
        let mut cps: Vec<(usize, String)> = vec![];
        for p in op.paths() {
            match canon(&p.s) {
                Ok(c) => cps.push((p.fs as usize, c)),
                Err(()) => return Want::Err(vec![ErrClass::InvalidPath]),
            }
        }
        let names = |m: &Model, p: &str| -> Out { Out::Names(m.children(p)) };
        match op {
            Op::Exists(_) => {
                let (f, p) = &cps[0];
                Want::Ok(Some(Out::Bool(self.m[*f].exists(p))))
            }
            Op::IsFile(_) => {
                let (f, p) = &cps[0];
                Want::Ok(Some(Out::Bool(self.m[*f].is_file(p))))
            }
            Op::IsDir(_) => {
                let (f, p) = &cps[0];
                Want::Ok(Some(Out::Bool(self.m[*f].is_dir(p))))
            }
            Op::Metadata(_) => {
                let (f, p) = &cps[0];
                let m = &self.m[*f];
                match m.t.get(p) {
                    Some(Node::Dir) => Want::Ok(Some(Out::Meta(MetaOut { dir: true, len: 0, times: [None; 3] }))),
                    Some(Node::File(b)) => Want::Ok(Some(Out::Meta(MetaOut {
                        dir: false,
                        len: b.len() as u64,
                        times: [None; 3],
                    }))),
                    None => Want::Err(nf_if(m, p)),
                }
            }
            Op::ReadDir(_) => {
                let (f, p) = &cps[0];
                let m = &self.m[*f];
                if m.is_dir(p) {
                    Want::Ok(Some(names(m, p)))
                } else {
                    Want::Err(nf_if(m, p))
                }
            }
            Op::ReadFile(..) => {
                let (f, p) = &cps[0];
                let m = &self.m[*f];
                match m.file(p) {
                    Some(b) => Want::Ok(Some(Out::Bytes(b.as_ref().clone()))),
                    None => Want::Err(nf_if(m, p)),
                }
            }
            Op::ReadToString(_) => {
                let (f, p) = &cps[0];
                let m = &self.m[*f];
                match m.file(p) {
                    Some(b) => match String::from_utf8(b.as_ref().clone()) {
                        Ok(s) => Want::Ok(Some(Out::Str(s))),
                        Err(_) => Want::Err(vec![]),
                    },
                    None => Want::Err(nf_if(m, p)),
                }
            }
            Op::WalkDir(_) => {
                let (f, p) = &cps[0];
                let m = &self.m[*f];
                if m.is_dir(p) {
                    Want::Ok(Some(Out::Walk(m.descendants(p).into_iter().map(Ok).collect())))
                } else {
                    Want::Err(nf_if(m, p))
                }
            }
            Op::CreateDir(_) => {
                let (f, p) = &cps[0];
                let m = &mut self.m[*f];
                if m.is_dir(p) {
                    return Want::Err(vec![ErrClass::DirExists]);
                }
                let par = parent_of(p);
                if !m.is_dir(&par) {
                    return Want::Err(vec![]);
                }
                if m.is_file(p) {
                    return Want::Err(vec![ErrClass::FileExists]);
                }
                m.t.insert(p.clone(), Node::Dir);
                Want::Ok(Some(Out::Unit))
            }
            Op::CreateDirAll(_) => {
                let (f, p) = &cps[0];
                let m = &mut self.m[*f];
                let mut chain = ancestors(p);
                chain.push(p.clone());
                if chain.iter().any(|a| m.is_file(a)) {
                    return Want::Err(vec![]);
                }
                for a in chain {
                    m.t.insert(a, Node::Dir);
                }
                Want::Ok(Some(Out::Unit))
            }
            Op::RemoveFile(_) => {
                let (f, p) = &cps[0];
                let m = &mut self.m[*f];
                if m.is_file(p) {
                    m.t.remove(p);
                    Want::Ok(Some(Out::Unit))
                } else {
                    Want::Err(nf_if(m, p))
                }
            }
            Op::RemoveDir(_) => {
                let (f, p) = &cps[0];
                let m = &mut self.m[*f];
                if p.is_empty() {
                    return Want::Unspec;
                }
                if m.is_dir(p) {
                    if m.children(p).is_empty() {
                        m.t.remove(p);
                        Want::Ok(Some(Out::Unit))
                    } else {
                        Want::Err(vec![])
                    }
                } else {
                    Want::Err(nf_if(m, p))
                }
            }
            Op::RemoveDirAll(_) => {
                let (f, p) = &cps[0];
                let m = &mut self.m[*f];
                if p.is_empty() {
                    return Want::Unspec;
                }
                if !m.exists(p) {
                    return Want::Ok(Some(Out::Unit));
                }
                if m.is_dir(p) {
                    m.remove_subtree(p);
                    Want::Ok(Some(Out::Unit))
                } else {
                    Want::Err(vec![])
                }
            }
            Op::Write { append, script, .. } => {
                let (f, p) = &cps[0];
                let m = &mut self.m[*f];
                if p.is_empty() {
                    return Want::Unspec;
                }
                if *append {
                    match m.file(p) {
                        Some(old) => {
                            let (buf, steps) = run_script(old.as_ref().clone(), true, script);
                            m.t.insert(p.clone(), Node::File(Arc::new(buf)));
                            Want::Ok(Some(Out::Session(
                                steps.into_iter().map(|r| r.map_err(|_| dummy_err())).collect(),
                            )))
                        }
                        None => Want::Err(nf_if(m, p)),
                    }
                } else {
                    if !m.is_dir(&parent_of(p)) || m.is_dir(p) {
                        return Want::Err(vec![]);
                    }
                    let (buf, steps) = run_script(vec![], false, script);
                    m.t.insert(p.clone(), Node::File(Arc::new(buf)));
                    Want::Ok(Some(Out::Session(
                        steps.into_iter().map(|r| r.map_err(|_| dummy_err())).collect(),
                    )))
                }
            }
            Op::CopyFile(..) | Op::MoveFile(..) => {
                let (sf, s) = cps[0].clone();
                let (df, d) = cps[1].clone();
                let is_move = matches!(op, Op::MoveFile(..));
                if self.m[df].exists(&d) {
                    return Want::Err(vec![]);
                }
                if self.m[sf].is_dir(&s) {
                    return Want::Unspec;
                }
                let bytes = match self.m[sf].file(&s) {
                    Some(b) => b.clone(),
                    None => return Want::Err(vec![]),
                };
                if !self.m[df].is_dir(&parent_of(&d)) {
                    return Want::Err(vec![]);
                }
                self.m[df].t.insert(d, Node::File(bytes));
                if is_move {
                    self.m[sf].t.remove(&s);
                }
                Want::Ok(Some(Out::Unit))
            }
            Op::CopyDir(..) | Op::MoveDir(..) => {
                let (sf, s) = cps[0].clone();
                let (df, d) = cps[1].clone();
                let is_move = matches!(op, Op::MoveDir(..));
                if sf == df && (d == s || is_under(&d, &s)) {
                    // into the own subtree: documented non-termination; d == s is "destination exists"
                    if d == s && self.m[sf].exists(&s) {
                        return Want::Err(vec![]);
                    }
                    return Want::Unspec;
                }
                if self.m[df].exists(&d) {
                    return Want::Err(vec![]);
                }
                if !self.m[sf].is_dir(&s) {
                    // wrong-typed or missing source: failure demanded only loosely, effect unspecified
                    return Want::Unspec;
                }
                if is_move && s.is_empty() {
                    return Want::Unspec;
                }
                if !self.m[df].is_dir(&parent_of(&d)) {
                    return Want::Err(vec![]);
                }
                let descs = self.m[sf].descendants(&s);
                let n = descs.len() as u64;
                let mut ins = vec![(d.clone(), Node::Dir)];
                for x in &descs {
                    let rel = &x[s.len()..];
                    ins.push((format!("{}{}", d, rel), self.m[sf].t[x].clone()));
                }
                for (k, v) in ins {
                    self.m[df].t.insert(k, v);
                }
                if is_move {
                    self.m[sf].remove_subtree(&s);
                    Want::Ok(Some(Out::Unit))
                } else {
                    Want::Ok(Some(Out::Count(n)))
                }
            }
            Op::OpenWrite { append, slot, .. } => {
                let (f, p) = &cps[0];
                let m = &mut self.m[*f];
                if p.is_empty() || self.w.values().any(|s| s.fs == *f && s.path == *p) {
                    return Want::Unspec;
                }
                let initial = if *append {
                    match m.file(p) {
                        Some(old) => old.as_ref().clone(),
                        None => return Want::Err(nf_if(m, p)),
                    }
                } else {
                    if !m.is_dir(&parent_of(p)) || m.is_dir(p) {
                        return Want::Err(vec![]);
                    }
                    m.t.insert(p.clone(), Node::File(Arc::new(vec![])));
                    vec![]
                };
                let mut cur = Cursor::new(initial);
                cur.seek(SeekFrom::End(0)).unwrap();
                self.w.insert(*slot, WSlot { fs: *f, path: p.clone(), cur, dirty: false, append: *append });
                Want::Ok(Some(Out::Unit))
            }
            Op::HWrite(slot, pl) => match self.w.get_mut(slot) {
                Some(ws) => {
                    let b = pl.bytes();
                    if !b.is_empty() {
                        ws.cur.write_all(&b).unwrap();
                        ws.dirty = true;
                    }
                    Want::Ok(Some(Out::Num(b.len())))
                }
                None => Want::Unspec,
            },
            Op::HSeek(slot, wh, off) => match self.w.get_mut(slot) {
                Some(ws) => match ws.cur.seek(seek_from(*wh, *off)) {
                    Ok(pos) => Want::Ok(Some(Out::Pos(pos))),
                    Err(_) => Want::Err(vec![]),
                },
                None => Want::Unspec,
            },
            Op::HFlush(slot) | Op::HDrop(slot) => {
                let drop_it = matches!(op, Op::HDrop(_));
                match self.w.get_mut(slot) {
                    Some(ws) => {
                        ws.dirty = false;
                        let (f, p, buf) = (ws.fs, ws.path.clone(), ws.cur.get_ref().clone());
                        if !self.m[f].is_dir(&parent_of(&p)) || self.m[f].is_dir(&p) {
                            // the path was removed/replaced while the handle was open: unspecified
                            if drop_it {
                                self.w.remove(slot);
                            }
                            return Want::Unspec;
                        }
                        self.m[f].t.insert(p, Node::File(Arc::new(buf)));
                        if drop_it {
                            self.w.remove(slot);
                        }
                        Want::Ok(Some(Out::Unit))
                    }
                    None => Want::Unspec,
                }
            }
            Op::WalkAfter { muts, .. } => {
                // the walk's items are compared between twins, not with the model; the mutations
                // are ordinary operations
                for m in muts {
                    let _ = self.apply(m);
                }
                Want::Unspec
            }
            // decided by dedicated oracles (time mode, handle mode) or not at all
            Op::SetTime(..)
            | Op::OpenRead(..)
            | Op::HRead(..)
            | Op::EnvNonUtf8(_)
            | Op::EnvDanglingSymlink(_)
            | Op::EnvRemoveBehind(_)
            | Op::EnvSpecial(..) => Want::Unspec,
            Op::Reopen => Want::Ok(Some(Out::Unit)),
        }
    }
}

impl World {
    /// paths with an open write handle holding unflushed data (observations there are unspecified)
    pub fn dirty_paths(&self, fs: usize) -> Vec<String> {
        self.w.values().filter(|s| s.fs == fs && s.dirty).map(|s| s.path.clone()).collect()
    }
    /// paths with any open write handle
    pub fn open_paths(&self, fs: usize) -> Vec<String> {
        self.w.values().filter(|s| s.fs == fs).map(|s| s.path.clone()).collect()
    }
}

pub fn dummy_err() -> ErrInfo {
    ErrInfo { class: ErrClass::Io, path: String::new(), display: String::new(), io_only: true }
}
