//! Model-free invariant monitors: C03 (well-formed tree) and C05 (observers agree).

use crate::model::*;
use crate::observe::Snap;
use crate::seq::*;
use crate::types::*;
use std::collections::{BTreeMap, BTreeSet};

pub fn run(cfg: &RunCfg, trace: bool) -> RunOut {
    let c03 = cfg.property == "C03";
    run_loop(cfg, trace, true, &mut |cx, i, op, before, _want, got, snaps| {
        if c03 && fault_window(cx, i) {
            cx.out.count("probe.c03.step_with_injected_failure_armed");
        }
        let after = if i == 0 { "initial".to_string() } else { format!("{}({})", op.kind(), op_tclass(before, op)) };
        if let Res::Panic(m) = got {
            // a panic is C13's business; here it only ends the run (state may be arbitrary)
            cx.trace(format!("run ended by panic: {}", m));
            return true;
        }
        for (f, s) in snaps.iter().enumerate() {
            let r = if c03 { check_c03(s) } else { check_c05(s) };
            if let Some((k, d)) = r {
                let key = format!("{}|{}|after={}|{}", cx.cfg.property, cx.shape, after, k);
                let detail = format!("after step {} {:?} (result {}), fs{}: {}", i, op, got.class(), f, d);
                cx.violate(i, key, detail);
                return true;
            }
        }
        false
    })
}

fn exists(s: &Snap, p: &str) -> bool {
    matches!(s.e.get(p).map(|e| &e.exists), Some(Ok(true)))
}

pub fn check_c03(s: &Snap) -> Option<(String, String)> {
    if !s.panics.is_empty() {
        return None;
    }
    let root = s.e.get("")?;
    if !matches!(root.exists, Ok(true)) || !matches!(&root.meta, Ok(m) if m.dir) {
        return Some(("root-not-a-directory".into(), format!("root: exists={:?} meta={:?}", root.exists, root.meta.as_ref().map(|m| m.dir))));
    }
    for (p, _) in s.e.iter().filter(|(p, e)| !p.is_empty() && matches!(e.exists, Ok(true))) {
        let par = parent_of(p);
        match s.e.get(&par) {
            Some(pe) => {
                let par_exists = matches!(pe.exists, Ok(true));
                let par_dir = matches!(&pe.meta, Ok(m) if m.dir);
                if !par_exists {
                    return Some(("orphan:parent-absent".into(), format!("'{}' exists but its parent '{}' does not", p, par)));
                }
                if !par_dir {
                    return Some(("orphan:parent-not-dir".into(), format!("'{}' exists but its parent '{}' is not a directory", p, par)));
                }
            }
            None => return Some(("harness:parent-not-probed".into(), format!("parent of '{}' not in snapshot", p))),
        }
    }
    // reachability: walk_dir(root) reaches every existing path
    match &s.walk {
        Some(Ok(items)) => {
            let mut reached: BTreeSet<&str> = BTreeSet::new();
            for it in items {
                match it {
                    Ok(p) => {
                        reached.insert(p.as_str());
                    }
                    Err(e) => return Some(("walk-error-item".into(), format!("walk_dir(root) yielded an error: {}", e.display))),
                }
            }
            for (p, e) in &s.e {
                if !p.is_empty() && matches!(e.exists, Ok(true)) && !reached.contains(p.as_str()) {
                    return Some(("unreachable-by-walk".into(), format!("'{}' exists but walk_dir(root) does not reach it", p)));
                }
            }
        }
        Some(Err(e)) => return Some(("walk-root-failed".into(), format!("walk_dir(root) failed: {}", e.display))),
        None => {}
    }
    None
}

pub fn check_c05(s: &Snap) -> Option<(String, String)> {
    if !s.panics.is_empty() {
        return None;
    }
    // how often does the parent's listing contain p?
    let mut listed: BTreeMap<&str, usize> = BTreeMap::new();
    for (d, e) in &s.e {
        if let Ok(l) = &e.list {
            for c in l {
                *listed.entry(c.as_str()).or_insert(0) += 1;
                // listed names are bare children of the listed directory
                let ok_prefix = c.len() > d.len() + 1 && c.starts_with(d.as_str()) && c.as_bytes()[d.len()] == b'/';
                if !ok_prefix || c[d.len() + 1..].contains('/') {
                    return Some(("listing-name-not-bare".into(), format!("read_dir('{}') yielded '{}'", d, c)));
                }
            }
        }
    }
    for (p, e) in &s.e {
        let ex = matches!(e.exists, Ok(true));
        let meta_ok = e.meta.is_ok();
        if ex != meta_ok {
            return Some((format!("exists={}!=metadata-ok={}", ex, meta_ok), format!("'{}': exists()={:?} metadata()={}", p, e.exists, short(&e.meta))));
        }
        if !p.is_empty() {
            let n = listed.get(p.as_str()).copied().unwrap_or(0);
            if ex && n != 1 {
                return Some((format!("exists-but-listed-{}x", n.min(2)), format!("'{}' exists but its parent lists it {} times", p, n)));
            }
            if !ex && n != 0 {
                return Some(("listed-but-absent".into(), format!("'{}' is listed by its parent {} times but exists() is false", p, n)));
            }
        }
        let is_dir = matches!(e.is_dir, Ok(true));
        let is_file = matches!(e.is_file, Ok(true));
        let meta_dir = matches!(&e.meta, Ok(m) if m.dir);
        let meta_file = matches!(&e.meta, Ok(m) if !m.dir);
        let listable = e.list.is_ok();
        let readable = e.bytes.is_ok();
        if is_dir != listable || is_dir != meta_dir {
            return Some((format!("dir-story:is_dir={},listable={},meta_dir={}", is_dir, listable, meta_dir), format!("'{}': is_dir()={:?} read_dir ok={} metadata dir={}", p, e.is_dir, listable, meta_dir)));
        }
        if is_file != readable || is_file != meta_file {
            return Some((format!("file-story:is_file={},readable={},meta_file={}", is_file, readable, meta_file), format!("'{}': is_file()={:?} open+read ok={} metadata file={} ({})", p, e.is_file, readable, meta_file, short(&e.bytes.as_ref().map(|b| b.len())))));
        }
        if let (Ok(m), Ok(b)) = (&e.meta, &e.bytes) {
            if m.len != b.len() as u64 {
                return Some(("len!=bytes".into(), format!("'{}': metadata len {} but {} bytes read", p, m.len, b.len())));
            }
        }
    }
    // walk: every descendant found by recursive listing exactly once, directories before contents
    match &s.walk {
        Some(Ok(items)) => {
            let mut pos: BTreeMap<&str, usize> = BTreeMap::new();
            for (i, it) in items.iter().enumerate() {
                match it {
                    Ok(p) => {
                        if pos.insert(p.as_str(), i).is_some() {
                            return Some(("walk-duplicate".into(), format!("walk_dir(root) yielded '{}' twice", p)));
                        }
                    }
                    Err(e) => return Some(("walk-error-item".into(), format!("walk_dir(root) yielded an error: {}", e.display))),
                }
            }
            // expected: everything reachable by recursive listing from the root
            let mut expect: BTreeSet<&str> = BTreeSet::new();
            let mut todo = vec![""];
            while let Some(d) = todo.pop() {
                if let Some(Ok(l)) = s.e.get(d).map(|e| &e.list) {
                    for c in l {
                        if expect.insert(c.as_str()) {
                            todo.push(c.as_str());
                        }
                    }
                }
            }
            for p in &expect {
                if !pos.contains_key(p) {
                    return Some(("walk-misses-entry".into(), format!("walk_dir(root) does not yield '{}'", p)));
                }
            }
            for (p, i) in &pos {
                if !expect.contains(p) {
                    return Some(("walk-extra-entry".into(), format!("walk_dir(root) yields '{}' which no listing contains", p)));
                }
                let par = parent_of(p);
                if !par.is_empty() {
                    match pos.get(par.as_str()) {
                        Some(j) if j < i => {}
                        _ => return Some(("walk-child-before-parent".into(), format!("walk_dir(root) yields '{}' before its directory '{}'", p, par))),
                    }
                }
            }
        }
        Some(Err(e)) => {
            if matches!(s.e.get("").map(|e| &e.list), Some(Ok(_))) {
                return Some(("walk-root-failed".into(), format!("walk_dir(root) failed though the root is listable: {}", e.display)));
            }
        }
        None => {}
    }
    None
}
