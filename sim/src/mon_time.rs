//! C19: timestamps round-trip and are independent of content. No comparison involves the wall
//! clock: only values the simulator set itself, or "unchanged since the read before the call".

use crate::model::*;
use crate::ops::{drain, meta_out, resolve};
use crate::seq::*;
use crate::stack::Built;
use crate::types::*;
use std::collections::BTreeMap;
use vfs::VfsPath;

type Obs = (Result<MetaOut, ErrClass>, Result<Vec<u8>, ()>);

fn meta_of(ctl_root: &Built, root: &VfsPath, p: &str) -> Result<MetaOut, ErrClass> {
    ctl_root.ctl.quiet(|| match resolve(root, p) {
        Ok(vp) => vp.metadata().map(|m| meta_out(&m)).map_err(|e| crate::ops::classify(&e)),
        Err(e) => Err(crate::ops::classify(&e)),
    })
}

fn bytes_of(b: &Built, p: &str) -> Result<Vec<u8>, ()> {
    b.ctl.quiet(|| {
        let vp = resolve(&b.root, p).map_err(|_| ())?;
        let mut h = vp.open_file().map_err(|_| ())?;
        drain(&mut *h, 8192).map_err(|_| ())
    })
}

fn field_idx(f: TField) -> usize {
    match f {
        TField::Created => 0,
        TField::Modified => 1,
        TField::Accessed => 2,
    }
}

/// the entry an adapter serves, read directly from the layer below (None if not determinable)
fn served_meta(b: &Built, p: &str) -> Option<Result<MetaOut, ErrClass>> {
    let top = &b.nodes[0];
    match top.kind {
        "alt" => {
            let inner = &b.nodes[1];
            let pfx = top.alt_p.clone().unwrap_or_default();
            Some(meta_of(b, &inner.root, &format!("{}{}", pfx, p)))
        }
        "ovl" => {
            // first layer (in order) that has the path
            let layers: Vec<&crate::stack::NodeInfo> = b.nodes.iter().filter(|n| n.parent == Some(0)).collect();
            for l in layers {
                let ex = b.ctl.quiet(|| resolve(&l.root, p).and_then(|v| v.exists()).unwrap_or(false));
                if ex {
                    return Some(meta_of(b, &l.root, p));
                }
            }
            None
        }
        _ => None,
    }
}

/// Some(true): the backend supports setting this field (the call must succeed on an existing
/// entry); Some(false): it does not (must report not-supported); None: depends on the layer that
/// holds the entry (overlays write time stamps to the upper layer only)
fn support(spec: &crate::stack::Spec, f: TField) -> Option<bool> {
    use crate::stack::Spec;
    match spec {
        Spec::Mem { .. } => Some(true),
        Spec::Phys { .. } => Some(f != TField::Created),
        Spec::Alt { inner, .. } => support(inner, f),
        _ => None,
    }
}

/// which setters the layer that RECEIVES them implements (an overlay hands them to its first layer)
pub fn receiver_support(spec: &crate::stack::Spec, f: TField) -> Option<bool> {
    use crate::stack::Spec;
    match spec {
        Spec::Mem { .. } => Some(true),
        Spec::Phys { .. } => Some(f != TField::Created),
        Spec::Emb => Some(false),
        Spec::Alt { inner, .. } => receiver_support(inner, f),
        Spec::Ovl { layers } => receiver_support(&layers[0], f),
        Spec::OvlSub { base, .. } => receiver_support(base, f),
    }
}

pub fn run_c19(cfg: &RunCfg, trace: bool) -> RunOut {
    let mut cx = match SeqCtx::new(cfg, trace) {
        Ok(c) => c,
        Err(e) => return RunOut { harness_error: Some(e), ..Default::default() },
    };
    let shape = cx.shape.clone();
    let mut sig = crate::rng::hash_str(&shape);
    let mut created_set: BTreeMap<String, i128> = BTreeMap::new();
    let (mut setters_ok, mut setters_err) = (0, 0);
    let all_mem = !cfg.specs[0].has_phys();
    let mut sync_ok: Vec<Option<bool>> = vec![None; cfg.ops.len()];
    for (idx, op) in cfg.ops.iter().enumerate() {
        let i = idx + 1;
        cx.out.steps += 1;
        let target = op.paths().first().and_then(|p| canon(&p.s).ok()).unwrap_or_default();
        let is_setter = matches!(op, Op::SetTime(..));
        // content first, then metadata, so that reading cannot disturb the access time we compare
        let pre: Option<Obs> = if is_setter {
            let by = bytes_of(&cx.built[0], &target);
            Some((meta_of(&cx.built[0], &cx.built[0].root, &target), by))
        } else {
            None
        };
        let before = cx.world.clone();
        let want = cx.world.apply(op);
        cx.grow_universe();
        let got = cx.exec.exec(op);
        let k = format!("op.{}.{}", op.kind(), got.class());
        cx.out.count(&k);
        sig = crate::rng::mix(sig, crate::rng::hash_str(&k));
        cx.log(res_hash(&got));
        if cx.trace_on {
            cx.trace(format!("step {} {:?} -> {}", i, op, short(&got)));
        }
        if got.is_panic() {
            break;
        }
        if is_setter {
            sync_ok[idx] = Some(got.is_ok());
        }
        macro_rules! fail {
            ($k:expr, $d:expr) => {{
                let key = format!("C19|{}|{}|{}|{}", shape, op.kind(), tclass(&before.m[0], &target), $k);
                cx.violate(i, key, format!("step {} {:?}: {}", i, op, $d));
                break;
            }};
        }
        if let Op::SetTime(_, f, secs, nanos) = op {
            let (m0, b0) = pre.unwrap();
            let m1 = meta_of(&cx.built[0], &cx.built[0].root, &target);
            let b1 = bytes_of(&cx.built[0], &target);
            let fi = field_idx(*f);
            let value = crate::ops::to_nanos(crate::ops::from_parts(*secs, *nanos));
            if before.m[0].exists(&target) {
                match (support(&cfg.specs[0], *f), &got) {
                    (Some(true), Res::Err(e)) => {
                        fail!(format!("supported-setter-failed:{:?}", e.class), format!("the backend supports setting {:?}, the entry exists, yet the call failed: {}", f, e.display));
                    }
                    (Some(false), other) if !matches!(other, Res::Err(e) if e.class == ErrClass::NotSupported) => {
                        fail!(format!("unsupported-setter:{}", other.class()), format!("the backend does not support setting {:?}: must report not-supported, got {}", f, short(other)));
                    }
                    _ => {}
                }
            }
            match &got {
                Res::Ok(_) => {
                    setters_ok += 1;
                    let (m0, m1) = match (m0, m1) {
                        (Ok(a), Ok(b)) => (a, b),
                        (a, b) => fail!("ok-but-metadata-unreadable", format!("setter succeeded but metadata is {:?} before / {:?} after", a.map(|_| ()), b.map(|_| ()))),
                    };
                    if m1.times[fi] != Some(value) {
                        fail!("field-not-set", format!("set {:?} to {} ns, metadata reports {:?}", f, value, m1.times[fi]));
                    }
                    for o in 0..3 {
                        if o != fi && m0.times[o] != m1.times[o] {
                            fail!(format!("other-field-changed:{}", ["created", "modified", "accessed"][o]), format!("setting {:?} changed {} from {:?} to {:?}", f, ["created", "modified", "accessed"][o], m0.times[o], m1.times[o]));
                        }
                    }
                    if m0.dir != m1.dir || m0.len != m1.len {
                        fail!("type-or-len-changed", format!("before (dir={},len={}) after (dir={},len={})", m0.dir, m0.len, m1.dir, m1.len));
                    }
                    if b0 != b1 {
                        fail!("bytes-changed", "file content changed".to_string());
                    }
                    if *f == TField::Created {
                        created_set.insert(target.clone(), value);
                    }
                }
                Res::Err(e) => {
                    setters_err += 1;
                    if e.class == ErrClass::NotSupported {
                        cx.out.count("probe.c19.not_supported");
                    }
                    let same = match (&m0, &m1) {
                        (Ok(a), Ok(b)) => a.dir == b.dir && a.len == b.len && a.times == b.times,
                        (Err(_), Err(_)) => true,
                        _ => false,
                    };
                    if !same || b0 != b1 {
                        fail!(format!("failed-setter-changed-something:{:?}", e.class), format!("setter failed ({}) but metadata/content changed: {:?} -> {:?}", e.display, m0, m1));
                    }
                }
                Res::Panic(_) => {}
            }
        } else if matches!(op, Op::OpenRead(..) | Op::HRead(..)) {
            // a live read handle on the file: neutral for every time stamp
            if !got.is_ok() {
                break;
            }
            cx.out.count("probe.c19.live_reader_step");
        } else {
            // ordinary contract op; a deviation ends the run (not C19's business)
            if matches!(want, Want::Unspec) || judge(&want, &got).is_some() {
                break;
            }
            // the path whose write handle is published by this step (append session or drop of an
            // open append/create handle)
            let published: Option<String> = match op {
                Op::Write { append: true, .. } => Some(target.clone()),
                Op::HDrop(slot) | Op::HFlush(slot) => before.w.get(slot).map(|ws| ws.path.clone()),
                _ => None,
            };
            match op {
                Op::Write { append: true, .. } | Op::HDrop(_) | Op::HFlush(_) => {
                    let target = published.clone().unwrap_or_default();
                    if let Some(v) = created_set.get(&target) {
                        if all_mem {
                            let m1 = meta_of(&cx.built[0], &cx.built[0].root, &target);
                            cx.out.count("probe.c19.append_after_set_creation_time");
                            match m1 {
                                Ok(m) if m.times[0] == Some(*v) => {}
                                other => fail!("append-changed-creation-time", format!("creation time set to {} ns, after an append session metadata reports {:?}", v, other.map(|m| m.times[0]))),
                            }
                        }
                    }
                }
                Op::Metadata(_) | Op::Exists(_) | Op::ReadFile(..) | Op::ReadDir(_) | Op::HWrite(..) => {}
                _ => {
                    // anything that may replace the entry forgets the shadow value
                    created_set.retain(|p, _| cx.world.m[0].exists(p) && !op.paths().iter().any(|q| canon(&q.s).map(|c| &c == p || is_under(p, &c)).unwrap_or(false)));
                }
            }
        }
        // adapters report the timestamps of the entry they serve
        if cx.world.m[0].exists(&target) {
            if let Some(served) = served_meta(&cx.built[0], &target) {
                let through = meta_of(&cx.built[0], &cx.built[0].root, &target);
                cx.out.count("probe.c19.adapter_passthrough_checked");
                let same = match (&served, &through) {
                    (Ok(a), Ok(b)) => a.times == b.times && a.len == b.len && a.dir == b.dir,
                    (Err(_), Err(_)) => true,
                    _ => false,
                };
                if !same {
                    let key = format!("C19|{}|adapter-metadata-differs|after={}", shape, op.kind());
                    cx.violate(i, key, format!("after step {} {:?}: metadata of '{}' through the adapter {:?} != metadata of the serving entry {:?}", i, op, target, through, served));
                    break;
                }
            }
        }
    }
    // the async physical backend sets time stamps through tokio's blocking pool: with a runtime in
    // scope it must behave like the sync backend (same success, exact value, nothing else changed)
    if cx.out.violations.is_empty() && cfg.specs[0].has_phys() && cfg.seed % 2 == 0 && (!cfg.specs[0].has_ovl() || all_phys(&cfg.specs[0])) {
        if let Some((k, d, step)) = async_time_mirror(cfg, &mut cx.out, &sync_ok) {
            cx.out.violations.push(Violation { property: "C19".into(), key: format!("C19|{}/async|{}", shape, k), detail: d, step });
        }
    }
    cx.out.signature = sig;
    cx.out.nontrivial = setters_ok >= 2 && (setters_err >= 1 || setters_ok >= 4);
    cx.out.state_hashes.push(sig);
    cx.finish()
}


fn all_phys(spec: &crate::stack::Spec) -> bool {
    use crate::stack::Spec;
    match spec {
        Spec::Phys { .. } => true,
        Spec::Mem { .. } | Spec::Emb => false,
        Spec::Alt { inner, .. } => all_phys(inner),
        Spec::Ovl { layers } => layers.iter().all(all_phys),
        Spec::OvlSub { base, .. } => all_phys(base),
    }
}

fn async_time_mirror(cfg: &RunCfg, out: &mut RunOut, sync_ok: &[Option<bool>]) -> Option<(String, String, usize)> {
    use crate::asyncsim::*;
    let rt = tokio::runtime::Builder::new_current_thread().build().ok()?;
    let _guard = rt.enter();
    let ab = abuild(&cfg.specs[0], crate::rng::mix(cfg.order_seed, 0), cfg.permute, crate::rng::mix(cfg.seed, 0xC19A), 20).ok()?;
    out.count("probe.c19.async_runs");
    let mut ax = AExec { root: ab.root.clone(), slots: Default::default(), others: vec![] };
    let mut world = World { m: vec![cfg.specs[0].view()], w: Default::default() };
    let ameta = |ax: &mut AExec, p: &str| -> Result<MetaOut, ErrClass> {
        let mut st = PollStats::default();
        match ax.exec(&Op::Metadata(P::new(p)), &mut st) {
            Res::Ok(Out::Meta(m)) => Ok(m),
            Res::Err(e) => Err(e.class),
            _ => Err(ErrClass::Other),
        }
    };
    for (idx, op) in cfg.ops.iter().enumerate() {
        let i = idx + 1;
        let target = op.paths().first().and_then(|p| canon(&p.s).ok()).unwrap_or_default();
        let before = world.clone();
        let want = world.apply(op);
        if let Op::SetTime(_, f, secs, nanos) = op {
            let m0 = ameta(&mut ax, &target);
            ab.ctl.on.store(true, std::sync::atomic::Ordering::SeqCst);
            let mut st = PollStats::default();
            let got = ax.exec(op, &mut st);
            ab.ctl.on.store(false, std::sync::atomic::Ordering::SeqCst);
            let m1 = ameta(&mut ax, &target);
            if got.is_panic() {
                return None;
            }
            if !before.m[0].exists(&target) {
                continue;
            }
            let fi = field_idx(*f);
            let value = crate::ops::to_nanos(crate::ops::from_parts(*secs, *nanos));
            // every layer is physical: the async stack must accept / refuse exactly what the sync one does
            // (an overlay refuses to re-time an entry that lives only in a lower layer)
            if all_phys(&cfg.specs[0]) {
                if let Some(Some(s_ok)) = sync_ok.get(idx) {
                    out.count("probe.c19.async_vs_sync_setter_compared");
                    if *s_ok != got.is_ok() {
                        return Some((format!("{}|sync-vs-async-setter:{}-vs-{}", op.kind(), if *s_ok { "Ok" } else { "Err" }, got.class()), format!("step {} {:?}: the sync stack {} this setter, the async stack answers {}", i, op, if *s_ok { "accepts" } else { "refuses" }, short(&got)), i));
                    }
                }
            }
            match (support(&cfg.specs[0], *f), &got) {
                (Some(true), Res::Err(e)) => {
                    return Some((format!("{}|supported-setter-failed:{:?}", op.kind(), e.class), format!("step {} {:?}: the async physical backend (tokio runtime in scope) failed where the sync one succeeds: {}", i, op, e.display), i));
                }
                (Some(true), Res::Ok(_)) => {
                    out.count("probe.c19.async_setter_ok");
                    if let (Ok(a), Ok(b)) = (&m0, &m1) {
                        if b.times[fi] != Some(value) {
                            return Some((format!("{}|field-not-set", op.kind()), format!("step {} {:?}: async metadata reports {:?}, set {}", i, op, b.times[fi], value), i));
                        }
                        if a.dir != b.dir || a.len != b.len || (0..3).any(|o| o != fi && a.times[o] != b.times[o]) {
                            return Some((format!("{}|other-field-changed", op.kind()), format!("step {} {:?}: async metadata before {:?} after {:?}", i, op, a, b), i));
                        }
                    }
                }
                (Some(false), other) if !matches!(other, Res::Err(e) if e.class == ErrClass::NotSupported) => {
                    return Some((format!("{}|unsupported-setter:{}", op.kind(), other.class()), format!("step {} {:?}: must report not-supported, got {}", i, op, short(other)), i));
                }
                _ => {}
            }
        } else {
            if matches!(want, Want::Unspec) {
                return None;
            }
            let mut st = PollStats::default();
            let got = ax.exec(op, &mut st);
            if judge(&want, &got).is_some() {
                return None;
            }
        }
    }
    None
}
