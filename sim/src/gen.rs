//! Seeded generation of stacks, initial contents and model-aware operation histories.
//! Generation is a pure function of the seed: the history is produced against the reference
//! model only, never against the real filesystem, so a run is `gen(seed)` followed by `run(cfg)`.

use crate::model::*;
use crate::rng::Rng;
use crate::stack::{Pre, Spec};
use crate::types::*;

pub const NAME_POOL: &[&str] = &[
    "a", "ab", "a.b", "a.", "b.txt", ".h", "...", "..a", "ü", "日本", "€x", "A", "a b", "x", "c", "d1", "Ab", "b", "..\\outside.txt", "a\\b", "b_wo.c", ".whiteouts", "r\u{FFFD}x",
    // a long component (230 bytes): derived names (suffixes like _copy, the overlay's _wo markers)
    // still fit into the 255 bytes most filesystems allow; C02 adds an exactly 255-byte name
    "LLLLLLLLLLLLLLLLLLLLLLLLLLLLLLLLLLLLLLLLLLLLLLLLLLLLLLLLLLLLLLLLLLLLLLLLLLLLLLLLLLLLLLLLLLLLLLLLLLLLLLLLLLLLLLLLLLLLLLLLLLLLLLLLLLLLLLLLLLLLLLLLLLLLLLLLLLLLLLLLLLLLLLLLLLLLLLLLLLLLLLLLLLLLLLLLLLLLLLLLLLLLLLLLLLLLLLLLLLLLLLLLLL.ext",
];
/// names reserved for the areas outside an altroot / inner namespaces (never in the caller's universe)
pub const ALT_POOL: &[&str] = &["ALTROOT_p", "ALTROOT_q", "ALTROOT_r"];
pub const BESIDE_POOL: &[&str] = &["BESIDE_u", "BESIDE_v"];

pub fn long_name() -> String {
    "L".repeat(200)
}

#[derive(Clone, Debug, PartialEq)]
pub enum Domain {
    /// only combinations the contracts specify
    Contract,
    /// everything except root removal and copy/move into the own subtree
    Unrestricted,
}

pub struct Gen {
    pub rng: Rng,
    pub names: Vec<String>,
    pub depth: usize,
    pub next_payload: u32,
    pub domain: Domain,
    /// payload size profile: 0 = small, 1 = with boundaries, 2 = byte mode (large included)
    pub size_profile: u8,
    pub allow_seek: bool,
    pub nfs: usize,
    /// stack contains an overlay: avoid the preconditions of overlay known findings mostly
    pub avoid_known: bool,
    /// percent chance that a pre-populated overlay gets a directory-over-file type conflict
    pub sandwich_pct: u32,
    /// percent chance that a generated initial view holds one wide directory
    pub wide_pct: u32,
}

#[derive(Clone, Copy, Debug, PartialEq)]
pub enum Tc {
    File,
    Dir,
    NonRootDir,
    EmptyDir,
    NonEmptyDir,
    AbsentInDir,
    AbsentDeep,
    UnderFile,
    Any,
}

impl Gen {
    pub fn new(seed: u64) -> Gen {
        let mut rng = Rng::new(seed);
        let n = rng.range(3, 6);
        let mut pool: Vec<String> = NAME_POOL.iter().map(|s| s.to_string()).collect();
        if rng.pct(15) {
            pool.push(long_name());
        }
        rng.shuffle(&mut pool);
        // keep prefix-related names together often
        let mut names: Vec<String> = pool.into_iter().take(n).collect();
        if rng.pct(50) && !names.contains(&"a".to_string()) {
            names[0] = "a".into();
        }
        if rng.pct(50) && !names.contains(&"ab".to_string()) {
            names[1] = "ab".into();
        }
        let depth = rng.range(2, 4);
        Gen { rng, names, depth, next_payload: 1, domain: Domain::Contract, size_profile: 0, allow_seek: true, nfs: 1, avoid_known: false, sandwich_pct: 15, wide_pct: 3 }
    }

    pub fn payload(&mut self) -> Payload {
        let id = self.next_payload;
        self.next_payload += 1;
        let len = match self.size_profile {
            0 => match self.rng.weighted(&[20, 60, 15, 5]) {
                0 => 0,
                1 => self.rng.range(1, 24),
                2 => self.rng.range(25, 300),
                _ => *self.rng.pick(&[4095usize, 4096, 4097, 8191, 8192, 8193]),
            },
            1 => match self.rng.weighted(&[10, 40, 20, 25, 5]) {
                0 => 0,
                1 => self.rng.range(1, 24),
                2 => self.rng.range(25, 600),
                3 => *self.rng.pick(&[4095usize, 4096, 4097, 8191, 8192, 8193]),
                _ => *self.rng.pick(&[16383usize, 16384, 16385]),
            },
            _ => match self.rng.weighted(&[8, 30, 12, 30, 12, 8]) {
                0 => 0,
                1 => self.rng.range(1, 3),
                2 => self.rng.range(4, 700),
                3 => *self.rng.pick(&[4095usize, 4096, 4097, 8191, 8192, 8193, 16384]),
                4 => *self.rng.pick(&[65535usize, 65536, 65537]),
                _ => self.rng.range(180_000, 220_000),
            },
        };
        Payload { id, len: len as u32, utf8: !self.rng.pct(30) }
    }

    pub fn name(&mut self) -> String {
        let i = self.rng.below(self.names.len());
        self.names[i].clone()
    }

    fn depth_of(p: &str) -> usize {
        p.matches('/').count()
    }

    /// choose a path of the wanted class, if the model has one
    pub fn target(&mut self, m: &Model, tc: Tc) -> Option<String> {
        let pickv = |rng: &mut Rng, v: Vec<String>| -> Option<String> {
            if v.is_empty() {
                None
            } else {
                Some(v[rng.below(v.len())].clone())
            }
        };
        match tc {
            Tc::File => pickv(&mut self.rng, m.files()),
            Tc::Dir => pickv(&mut self.rng, m.dirs()),
            Tc::NonRootDir => pickv(&mut self.rng, m.dirs().into_iter().filter(|d| !d.is_empty()).collect()),
            Tc::EmptyDir => pickv(
                &mut self.rng,
                m.dirs().into_iter().filter(|d| !d.is_empty() && m.children(d).is_empty()).collect(),
            ),
            Tc::NonEmptyDir => pickv(
                &mut self.rng,
                m.dirs().into_iter().filter(|d| !d.is_empty() && !m.children(d).is_empty()).collect(),
            ),
            Tc::AbsentInDir => {
                let dirs: Vec<String> = m.dirs().into_iter().filter(|d| Self::depth_of(d) < self.depth).collect();
                for _ in 0..8 {
                    let d = pickv(&mut self.rng, dirs.clone())?;
                    let n = self.name();
                    let p = format!("{}/{}", d, n);
                    if !m.exists(&p) {
                        return Some(p);
                    }
                }
                None
            }
            Tc::AbsentDeep => {
                for _ in 0..8 {
                    let base = self.target(m, Tc::AbsentInDir)?;
                    let p = format!("{}/{}", base, self.name());
                    if !m.exists(&p) {
                        return Some(p);
                    }
                }
                None
            }
            Tc::UnderFile => {
                let f = pickv(&mut self.rng, m.files())?;
                let mut p = format!("{}/{}", f, self.name());
                if self.rng.pct(25) {
                    p = format!("{}/{}", p, self.name());
                }
                Some(p)
            }
            Tc::Any => {
                let k = self.rng.range(0, self.depth);
                let mut p = String::new();
                for _ in 0..k {
                    p.push('/');
                    p.push_str(&self.name());
                }
                Some(p)
            }
        }
    }

    /// pick by weighted class list, falling back to other classes when one is unavailable
    pub fn target_w(&mut self, m: &Model, classes: &[(Tc, u32)]) -> String {
        let ws: Vec<u32> = classes.iter().map(|c| c.1).collect();
        for _ in 0..6 {
            let i = self.rng.weighted(&ws);
            if let Some(p) = self.target(m, classes[i].0) {
                return p;
            }
        }
        self.target(m, Tc::Any).unwrap()
    }

    pub fn script(&mut self, append: bool) -> Vec<WStep> {
        let n = self.rng.weighted(&[10, 50, 25, 15]); // number of writes
        let mut s = vec![];
        let mut len: i64 = 0;
        for _ in 0..n {
            if self.allow_seek && !append && self.rng.pct(25) {
                // valid seeks only
                let st = match self.rng.below(3) {
                    0 => WStep::Seek(Whence::Start, self.rng.range(0, (len + 5) as usize) as i64),
                    1 => WStep::Seek(Whence::End, self.rng.range(0, (len.min(40) + 5) as usize) as i64 - len.min(40)),
                    _ => WStep::Seek(Whence::Current, self.rng.range(0, 6) as i64),
                };
                s.push(st);
                len += 6; // conservative upper bound of the growth a seek allows
            }
            let pl = self.payload();
            len += pl.len as i64;
            s.push(WStep::Write(pl));
            if self.rng.pct(20) {
                s.push(WStep::Flush);
            }
        }
        s
    }

    fn p(&self, fs: usize, s: String) -> P {
        mkp(fs, s)
    }

    /// weights of op kinds: [exists, metadata, is_file, is_dir, read_dir, read_file, read_to_string, walk,
    ///  create_dir, create_dir_all, remove_file, remove_dir, remove_dir_all, create_file, append_file,
    ///  copy_file, move_file, copy_dir, move_dir]
    pub fn gen_op(&mut self, w: &World, weights: &[u32; 19]) -> Op {
        let unr = self.domain == Domain::Unrestricted;
        let fs = self.rng.below(self.nfs);
        let m = &w.m[fs];
        let k = self.rng.weighted(weights);
        let obs = [(Tc::File, 30), (Tc::Dir, 30), (Tc::AbsentInDir, 20), (Tc::AbsentDeep, 8), (Tc::UnderFile, 8), (Tc::Any, 4)];
        match k {
            0 => {
                let t = self.clone_target(m, &obs);
                Op::Exists(mkp(fs, t))
            }
            1 => {
                let t = self.clone_target(m, &obs);
                Op::Metadata(mkp(fs, t))
            }
            2 => {
                let t = self.clone_target(m, &obs);
                Op::IsFile(mkp(fs, t))
            }
            3 => {
                let t = self.clone_target(m, &obs);
                Op::IsDir(mkp(fs, t))
            }
            4 => {
                let t = self.clone_target(m, &[(Tc::Dir, 55), (Tc::File, 15), (Tc::AbsentInDir, 15), (Tc::AbsentDeep, 7), (Tc::UnderFile, 8)]);
                Op::ReadDir(self.p(fs, t))
            }
            5 => {
                let t = self.clone_target(m, &[(Tc::File, 60), (Tc::Dir, 15), (Tc::AbsentInDir, 15), (Tc::AbsentDeep, 5), (Tc::UnderFile, 5)]);
                let b = *self.rng.pick(&[1usize, 2, 3, 7, 512, 8191, 8192, 8193, 65536]);
                Op::ReadFile(self.p(fs, t), b)
            }
            6 => {
                let t = self.clone_target(m, &[(Tc::File, 65), (Tc::Dir, 15), (Tc::AbsentInDir, 15), (Tc::UnderFile, 5)]);
                Op::ReadToString(self.p(fs, t))
            }
            7 => {
                let t = self.clone_target(m, &[(Tc::Dir, 70), (Tc::File, 10), (Tc::AbsentInDir, 15), (Tc::UnderFile, 5)]);
                Op::WalkDir(self.p(fs, t))
            }
            8 => {
                let t = self.clone_target(m, &[(Tc::AbsentInDir, 58), (Tc::File, 12), (Tc::Dir, 12), (Tc::AbsentDeep, 9), (Tc::UnderFile, 9)]);
                Op::CreateDir(self.p(fs, t))
            }
            9 => {
                let t = match self.rng.weighted(&[55, 15, 15, 15]) {
                    0 => {
                        // deep absent path below an existing directory
                        let base = self.target(m, Tc::Dir).unwrap_or_default();
                        let extra = self.rng.range(1, 3);
                        let mut p = base;
                        for _ in 0..extra {
                            if Self::depth_of(&p) >= self.depth + 1 {
                                break;
                            }
                            p = format!("{}/{}", p, self.name());
                        }
                        p
                    }
                    1 => self.clone_target(m, &[(Tc::Dir, 1)]),
                    2 => self.clone_target(m, &[(Tc::UnderFile, 1)]),
                    _ => self.clone_target(m, &[(Tc::File, 1)]),
                };
                Op::CreateDirAll(self.p(fs, t))
            }
            10 => {
                let t = self.clone_target(m, &[(Tc::File, 55), (Tc::EmptyDir, 8), (Tc::NonEmptyDir, 10), (Tc::AbsentInDir, 15), (Tc::AbsentDeep, 6), (Tc::UnderFile, 6)]);
                Op::RemoveFile(self.p(fs, t))
            }
            11 => {
                let t = self.clone_target(m, &[(Tc::EmptyDir, 45), (Tc::NonEmptyDir, 20), (Tc::File, 15), (Tc::AbsentInDir, 10), (Tc::AbsentDeep, 5), (Tc::UnderFile, 5)]);
                Op::RemoveDir(self.p(fs, t))
            }
            12 => {
                let t = self.clone_target(m, &[(Tc::NonRootDir, 60), (Tc::AbsentInDir, 15), (Tc::AbsentDeep, 5), (Tc::File, 15), (Tc::UnderFile, 5)]);
                Op::RemoveDirAll(self.p(fs, t))
            }
            13 => {
                let t = self.clone_target(m, &[(Tc::AbsentInDir, 42), (Tc::File, 28), (Tc::NonRootDir, 12), (Tc::AbsentDeep, 9), (Tc::UnderFile, 9)]);
                let script = self.script(false);
                Op::Write { p: self.p(fs, t), append: false, script }
            }
            14 => {
                let t = self.clone_target(m, &[(Tc::File, 60), (Tc::AbsentInDir, 15), (Tc::NonRootDir, 13), (Tc::AbsentDeep, 6), (Tc::UnderFile, 6)]);
                let script = self.script(true);
                Op::Write { p: self.p(fs, t), append: true, script }
            }
            15 | 16 => {
                let dfs = self.rng.below(self.nfs);
                let src_classes: Vec<(Tc, u32)> = if unr {
                    vec![(Tc::File, 60), (Tc::AbsentInDir, 15), (Tc::NonRootDir, 20), (Tc::UnderFile, 5)]
                } else {
                    vec![(Tc::File, 78), (Tc::AbsentInDir, 16), (Tc::UnderFile, 6)]
                };
                let s = self.clone_target(m, &src_classes);
                let md = &w.m[dfs];
                let d = self.clone_target(md, &[(Tc::AbsentInDir, 64), (Tc::File, 12), (Tc::Dir, 8), (Tc::AbsentDeep, 8), (Tc::UnderFile, 8)]);
                if k == 15 {
                    Op::CopyFile(self.p(fs, s), self.p(dfs, d))
                } else {
                    Op::MoveFile(self.p(fs, s), self.p(dfs, d))
                }
            }
            _ => {
                let dfs = self.rng.below(self.nfs);
                let src_classes: Vec<(Tc, u32)> = if unr {
                    vec![(Tc::NonRootDir, 65), (Tc::File, 15), (Tc::AbsentInDir, 15), (Tc::UnderFile, 5)]
                } else {
                    vec![(Tc::NonRootDir, 1)]
                };
                let mut s = self.clone_target(m, &src_classes);
                if !unr && !m.is_dir(&s) || s.is_empty() {
                    // no directory to move: degrade to a plain create_dir
                    let t = self.clone_target(m, &[(Tc::AbsentInDir, 1)]);
                    return Op::CreateDir(self.p(fs, t));
                }
                let md = &w.m[dfs];
                let mut d = String::new();
                let mut ok = false;
                for _ in 0..8 {
                    d = self.clone_target(md, &[(Tc::AbsentInDir, 66), (Tc::File, 10), (Tc::Dir, 12), (Tc::AbsentDeep, 6), (Tc::UnderFile, 6)]);
                    if !(fs == dfs && (d == s || is_under(&d, &s))) || (d == s) {
                        ok = true;
                        break;
                    }
                }
                if !ok || (fs == dfs && is_under(&d, &s)) {
                    let t = self.clone_target(m, &[(Tc::AbsentInDir, 1)]);
                    return Op::CreateDir(self.p(fs, t));
                }
                if d == s && fs == dfs && unr {
                    s = s.clone();
                }
                if k == 17 {
                    Op::CopyDir(self.p(fs, s), self.p(dfs, d))
                } else {
                    Op::MoveDir(self.p(fs, s), self.p(dfs, d))
                }
            }
        }
    }

    fn clone_target(&mut self, m: &Model, classes: &[(Tc, u32)]) -> String {
        self.target_w(m, classes)
    }

    // ------------------------------------------------------------------ stacks

    /// random tree of entries (type-consistent view) over the name universe
    pub fn gen_view(&mut self, max_entries: usize) -> Vec<(String, bool)> {
        let mut m = Model::new();
        let n = self.rng.range(0, max_entries);
        for _ in 0..n {
            if let Some(p) = self.target(&m.clone(), Tc::AbsentInDir) {
                if self.rng.pct(50) {
                    m.t.insert(p, Node::Dir);
                } else {
                    m.t.insert(p, Node::File(Default::default()));
                }
            }
        }
        // scale: now and then one directory is WIDE (40-130 children with names that sort around
        // each other), so that listings, merges and walks leave the handful-of-entries regime
        if self.wide_pct > 0 && self.rng.pct(self.wide_pct) {
            let dirs: Vec<String> = m.t.iter().filter(|(_, v)| matches!(v, Node::Dir)).map(|(k, _)| k.clone()).collect();
            let d = dirs[self.rng.below(dirs.len())].clone();
            let k = self.rng.range(40, 130);
            for j in 0..k {
                let name = match j % 4 {
                    0 => format!("w{:03}", j),
                    1 => format!("w{}", j),
                    2 => format!("w{:03}.d", j),
                    _ => format!("W{:02}x", j),
                };
                let p = format!("{}/{}", d, name);
                if self.rng.pct(35) {
                    m.t.insert(p.clone(), Node::Dir);
                    if self.rng.pct(30) {
                        m.t.insert(format!("{}/in", p), Node::File(Default::default()));
                    }
                } else {
                    m.t.insert(p, Node::File(Default::default()));
                }
            }
        }
        m.t.iter().filter(|(k, _)| !k.is_empty()).map(|(k, v)| (k.clone(), matches!(v, Node::File(_)))).collect()
    }

    /// push a view down into the leaves of a spec (each overlay layer gets a parent-closed subset,
    /// files get per-layer distinct bytes)
    pub fn populate(&mut self, spec: &mut Spec, view: &[(String, bool)], subset: bool) {
        match spec {
            Spec::Mem { pre } | Spec::Phys { pre } => {
                let mut chosen: Vec<(String, bool)> = vec![];
                for (p, is_file) in view {
                    let par = parent_of(p);
                    // a parent that is not itself part of the view is a structural prefix (altroot
                    // directory, layer directory) which the builder creates
                    let par_in_view = view.iter().any(|(c, _)| *c == par);
                    let par_ok = par.is_empty() || !par_in_view || chosen.iter().any(|(c, f)| *c == par && !*f);
                    if par_ok && (!subset || self.rng.pct(60)) {
                        chosen.push((p.clone(), *is_file));
                    }
                }
                for (p, is_file) in chosen {
                    let file = if is_file {
                        let mut pl = self.payload();
                        // initial contents stay small, except in byte mode where every eighth
                        // file keeps its drawn size (64 KiB boundaries, ~200 KiB): copy-up and
                        // transfers of LARGE pre-existing files
                        if pl.len > 600 && !(self.size_profile >= 2 && self.rng.pct(12)) {
                            pl.len = 600;
                        }
                        Some(pl)
                    } else {
                        None
                    };
                    pre.push(Pre { path: p, file });
                }
            }
            Spec::Emb => {}
            Spec::Alt { inner, p } => {
                let mut v: Vec<(String, bool)> = vec![];
                // ancestors of P are created by the builder; entries inside P:
                for (q, f) in view {
                    v.push((format!("{}{}", p, q), *f));
                }
                self.populate(inner, &v, subset);
            }
            Spec::Ovl { layers } => {
                let n = layers.len();
                for (i, l) in layers.iter_mut().enumerate() {
                    // the upper layer is populated less often so lower-only entries are common
                    if i == 0 && n > 1 && self.rng.pct(40) {
                        continue;
                    }
                    self.populate(l, view, true);
                }
                // a shadowed type conflict: a directory of a higher layer hides a same-named FILE
                // of a deeper layer (the union is still well defined: the first layer decides the
                // type, directories merge the children of all layers that hold a directory)
                if n >= 2 && self.sandwich_pct > 0 && self.rng.pct(self.sandwich_pct) {
                    let views: Vec<crate::model::Model> = layers.iter().map(|l| l.view()).collect();
                    let mut cands: Vec<(String, usize)> = vec![];
                    for (d, is_file) in view {
                        if *is_file {
                            continue;
                        }
                        if let Some(i) = views.iter().position(|v| v.exists(d)) {
                            for j in (i + 1)..n {
                                if !views[j].exists(d) && !layers[j].has_ovl() && !matches!(layers[j], Spec::Emb) {
                                    cands.push((d.clone(), j));
                                }
                            }
                        }
                    }
                    if !cands.is_empty() {
                        let (d, j) = cands[self.rng.below(cands.len())].clone();
                        let mut v: Vec<(String, bool)> = crate::model::ancestors(&d).into_iter().filter(|a| !a.is_empty() && !views[j].exists(a)).map(|a| (a, false)).collect();
                        v.push((d, true));
                        self.populate(&mut layers[j], &v, false);
                    }
                }
            }
            Spec::OvlSub { base, dirs } => {
                let n = dirs.len();
                for (i, d) in dirs.clone().iter().enumerate() {
                    if i == 0 && n > 1 && self.rng.pct(40) {
                        continue;
                    }
                    let v: Vec<(String, bool)> = view.iter().map(|(q, f)| (format!("{}{}", d, q), *f)).collect();
                    self.populate(base, &v, true);
                }
            }
        }
    }

    /// add entries beside the altroot directory (disjoint name pool) into the leaf under an Alt
    pub fn add_beside(&mut self, spec: &mut Spec) {
        if let Spec::Alt { inner, p } = spec {
            let par = parent_of(p);
            let mut extra = vec![];
            if !p.is_empty() {
                for b in BESIDE_POOL {
                    let pl = self.payload();
                    extra.push(Pre { path: format!("{}/{}", par, b), file: Some(Payload { len: pl.len.min(40).max(1), ..pl }) });
                }
                // a sibling whose name has P's last component as a prefix
                extra.push(Pre { path: format!("{}x/inner", p), file: None });
            }
            push_leaf(inner, extra);
            self.add_beside(inner);
        } else if let Spec::Ovl { layers } = spec {
            for l in layers.iter_mut() {
                self.add_beside(l);
            }
        } else if let Spec::OvlSub { base, .. } = spec {
            self.add_beside(base);
        }
    }

    pub fn leaf(&mut self, phys_pct: u32) -> Spec {
        if self.rng.pct(phys_pct) {
            Spec::Phys { pre: vec![] }
        } else {
            Spec::Mem { pre: vec![] }
        }
    }

    pub fn alt_p(&mut self, allow_root: bool) -> String {
        let d = if allow_root { self.rng.range(0, 3) } else { self.rng.range(1, 3) };
        let mut p = String::new();
        for i in 0..d {
            p.push('/');
            p.push_str(ALT_POOL[(i + self.rng.below(3)) % 3]);
        }
        p
    }

    /// grammar FS := Mem | Phys | Alt(FS,P) | Ovl([FS;1..max_layers]), depth-bounded
    pub fn gen_spec(&mut self, depth: usize, phys_pct: u32, max_layers: usize) -> Spec {
        let w: [u32; 3] = if depth == 0 { [100, 0, 0] } else { [30, 25, 45] };
        match self.rng.weighted(&w) {
            0 => self.leaf(phys_pct),
            1 => {
                let inner = self.gen_spec(depth - 1, phys_pct, max_layers);
                Spec::Alt { inner: Box::new(inner), p: self.alt_p(true) }
            }
            _ if self.rng.pct(15) => {
                let n = self.rng.range(2, max_layers.max(2));
                Spec::OvlSub { base: Box::new(self.leaf(phys_pct)), dirs: LAYER_DIRS.iter().take(n).map(|s| s.to_string()).collect() }
            }
            _ => {
                let n = self.rng.range(1, max_layers);
                let mut layers = vec![];
                for i in 0..n {
                    // an overlay as the *upper* layer of another overlay shares the marker directory
                    // by construction; keep nested overlays to lower layers and altroots
                    let l = if i == 0 {
                        if self.rng.pct(25) && depth > 1 {
                            let inner = self.leaf(phys_pct);
                            Spec::Alt { inner: Box::new(inner), p: self.alt_p(true) }
                        } else {
                            self.leaf(phys_pct)
                        }
                    } else {
                        self.gen_spec(depth - 1, phys_pct, max_layers)
                    };
                    layers.push(l);
                }
                Spec::Ovl { layers }
            }
        }
    }
}

fn mkp(fs: usize, s: String) -> P {
    P { fs: fs as u8, s }
}

fn push_leaf(spec: &mut Spec, extra: Vec<Pre>) {
    match spec {
        Spec::Mem { pre } | Spec::Phys { pre } => pre.extend(extra),
        Spec::Emb => {}
        Spec::Alt { inner, p } => {
            let e2 = extra.into_iter().map(|e| Pre { path: format!("{}{}", p, e.path), file: e.file }).collect();
            push_leaf(inner, e2)
        }
        Spec::Ovl { layers } => {
            if let Some(l) = layers.first_mut() {
                push_leaf(l, extra)
            }
        }
        Spec::OvlSub { base, dirs } => {
            let d = dirs[0].clone();
            let e2 = extra.into_iter().map(|e| Pre { path: format!("{}{}", d, e.path), file: e.file }).collect();
            push_leaf(base, e2)
        }
    }
}

pub const LAYER_DIRS: &[&str] = &["/LAYERDIR_u", "/LAYERDIR_m", "/LAYERDIR_l", "/LAYERDIR_k"];
